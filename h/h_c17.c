/* C17 — a program loaded from a saved binary equals what its source compiles to; stale binaries are never used
 * (DESIGN §3 C17).  vx --explore: histories of free choices over
 *   { load+save, load, edit(f), touch(f), set mtime of f earlier/equal/later than main.b, same for the two binaries,
 *     delete binary, touch simul_efun + restart stamp, bump driver_id }
 * on a private copy of the dependency graph  main.c -> a.h -> b.h,  main.c inherits base.c (-> c.h) which inherits deep.c [and base2.c],
 * main.c uses a simul_efun.  Times are explicit (utimensat + virtual clock): nothing sleeps.
 *
 * Oracle at every load and at the end of every history:
 *  (1) reference staleness predicate: a binary that was used (its .b opened, its source not) must not be older than its
 *      source, a file it includes, the source / includes / binary of a program it inherits, nor carry other stamps;
 *  (2) the loaded main program (and what it inherits) dumps (h/progdump.c) to the dump of a compile of the CURRENT
 *      sources with binaries disabled, and every call on a fixed argument set — including a run-time error, with its
 *      file:line and trace — gives the same result.
 */
#include "hx.h"
#include "progdump.h"
#include <sys/stat.h>
#include <fcntl.h>
#include <stdarg.h>

extern unsigned vw_c17_driver_id (void);
extern void vw_c17_set_driver_id (unsigned);
extern unsigned long long vw_c17_config_id (void);
extern void init_binaries (void);

enum { F_MAIN, F_AH, F_BH, F_BASE, F_CH, F_BASE2, F_SEFUN, F_DEEP, NSRC };
static const char *src_name[NSRC] = { "c17/main.c", "c17/a.h", "c17/b.h", "c17/base.c", "c17/c.h", "c17/base2.c", "simul_efun.c", "c17/deep.c" };
enum { B_MAIN, B_BASE, B_BASE2, B_DEEP, NBIN };
static const char *bin_name[NBIN] = { "c17bin/c17/main.b", "c17bin/c17/base.b", "c17bin/c17/base2.b", "c17bin/c17/deep.b" };

static char libdir[PATH_MAX], root[PATH_MAX];
static int prog_variant, depth = 3, selftest, verbose, ops_full = 1;
/* large programs: `pad_reps` filler expressions (code bytes) and `pad_lines` blank lines in front of run(); pad mode sweeps pad_reps so that
 * run()'s string switch (instruction, table, end of table) crosses code offset 32767, history fixed to load+save, then load */
static int pad_reps, pad_lines, pad_mode, pad_from, pad_count;
static int ver[NSRC];                   /* content version of each source */
static long mt[NSRC];                   /* its mtime */
static int bin_exists[NBIN]; static long bin_mt[NBIN]; static int bin_ver[NBIN][NSRC];   /* versions the binary was built from */
static int bin_sefun_file[NBIN];         /* version of the simul_efun FILE on disk when the binary was written (its stamp must not depend on it) */
static unsigned bin_drv[NBIN];           /* driver_id the binary was written under */
static int driver_bumped, sefun_epoch;  /* sefun_epoch: simul_efun mtime as seen by the last (re)start */
static long sefun_seen_mt;
static long now_t;

#define FEAT(i) ((prog_variant >> (i)) & 1)   /* 0 string switch, 1 range switch, 2 class, 3 function literal, 4 save_types, 5 second inherit */

/* ------------------------------------------------------------------ open() log (driver objects are linked with --wrap=open) */
static char open_log[64][120]; static int n_open;
int __real_open (const char *, int, ...);
int __wrap_open (const char *path, int flags, ...) {
  mode_t mode = 0;
  if (flags & O_CREAT) { va_list ap; va_start (ap, flags); mode = (mode_t) va_arg (ap, int); va_end (ap); }
  if (path && (!strncmp (path, "c17", 3)) && n_open < 64) snprintf (open_log[n_open++], sizeof open_log[0], "%s", path);
  return __real_open (path, flags, mode);
}
static int was_opened (const char *path) { for (int i = 0; i < n_open; i++) if (!strcmp (open_log[i], path)) return 1; return 0; }

/* ------------------------------------------------------------------ sources */
static void gen_text (int f, int v, char *out, size_t n) {
  size_t k = 0;
#define P(...) k += (size_t) snprintf (out + k, n - k, __VA_ARGS__)
  switch (f) {
  case F_AH: P ("// a.h v%d\n#include \"b.h\"\n#define A_CONST %d\n#define A_MACRO(x) ((x) * %d + B_CONST)\n", v, 100 + v, 3 + v); break;
  case F_BH:
    P ("// b.h v%d\n#define B_CONST %d\nstring b_name() { return \"b%d\"; }\n", v, 7 + v, v);
    for (int i = 0; i < v; i++) P ("int b_pad_%d = %d;\n", i, i);
    break;
  case F_CH:
    P ("// c.h v%d\n#define C_CONST %d\n", v, 1000 + v);
    for (int i = 0; i < v; i++) P ("int c_pad_%d = %d;\nint c_fn_%d() { return %d; }\n", i, i, i, i);     /* an edit changes the layout of whoever includes it */
    break;
  case F_BASE:
    /* base.c inherits deep.c: main.c -> base.c -> deep.c is a chain of three programs */
    P ("#pragma save_binary\ninherit \"/c17/deep\";\n#include \"c.h\"\nint base_var = C_CONST;\nint base_fn(int a) { return a + C_CONST + %d + deep_fn(a); }\nstring base_tag() { return \"base-v%d\" + deep_tag(); }\n", v * 10, v);
    P ("int shared(int q) { return q + 1; }\n");
    break;
  case F_DEEP:
    P ("#pragma save_binary\nint deep_var = %d;\nint deep_fn(int a) { return a * %d + deep_var; }\nstring deep_tag() { return \"-deep%d\"; }\n", 40 + v, 2 + v, v);
    for (int i = 0; i < v; i++) P ("int deep_pad_%d = %d;\n", i, i);     /* an edit changes the variable layout of everything that inherits it */
    break;
  case F_BASE2:
    P ("#pragma save_binary\nint base2_var = %d;\nint base2_fn() { return base2_var * 2; }\nint shared(int q) { return q + 2; }\n", 5 + v); break;
  case F_SEFUN: {
    /* the verification simul_efun file; a later version only differs by a comment (the object itself is not reloaded) */
    char p[PATH_MAX]; snprintf (p, sizeof p, "%s/simul_efun.c", libdir);
    FILE *fp = fopen (p, "r"); size_t r = fp ? fread (out, 1, n - 40, fp) : 0; if (fp) fclose (fp); k = r;
    P ("// v%d\n", v);
    break;
  }
  case F_MAIN:
    P ("#pragma save_binary\n");
    if (FEAT (4)) P ("#pragma save_types\n");
    P ("inherit \"/c17/base\";\n");
    if (FEAT (5)) P ("inherit \"/c17/base2\";\n");
    P ("#include \"a.h\"\n");
    if (FEAT (2)) P ("class pt { int x; string n; mixed *rest; }\n");
    P ("int g = A_CONST + B_CONST + %d;\nmapping m = ([ \"k\" : %d ]);\n", v, v);
    P ("int typed(int a, string s, mixed *r) { return a + strlen(s) + sizeof(r); }\n");
    P ("int a_function_with_a_rather_long_name_for_the_string_table(int q) { return q + g; }\n");
    P ("int another_function_whose_name_is_so_long_that_its_shared_string_lives_in_yet_another_size_class_of_the_allocator(int q) { return q - g; }\n");
    if (pad_reps) { P ("int pad_code(int q) {\n  return (");  for (int i = 0; i < pad_reps; i++) P ((i & 15) == 15 ? "q++,\n" : "q++,"); P ("q);\n}\n"); }
    for (int i = 0; i < pad_lines; i++) P ("\n");
    P ("mixed run(int a, string s) {\n  mixed r = ({ g, base_fn(a), sefun_add(a, 1), A_MACRO(a), b_name(), base_tag(), shared(a), typed(a, s, ({ })), m[\"k\"],\n    a_function_with_a_rather_long_name_for_the_string_table(a), another_function_whose_name_is_so_long_that_its_shared_string_lives_in_yet_another_size_class_of_the_allocator(a) });\n");
    if (FEAT (0)) P ("  switch (s) { case \"alpha\": r += ({ \"A\" }); break; case \"beta\": case \"gamma\": r += ({ \"BG\" }); break; case \"north\": r += ({ \"N\" }); break; case 0: r += ({ \"nul\" }); break; default: r += ({ \"dflt\" }); }\n");
    if (FEAT (1)) P ("  switch (a) { case -5..0: r += ({ \"neg\" }); break; case 1: r += ({ \"one\" }); break; case 2..9: r += ({ \"digit\" }); break; case 1000..2000: r += ({ \"k\" }); break; default: r += ({ \"other\" }); }\n");
    if (FEAT (2)) P ("  { class pt p = new(class pt, x : a, n : s); p->rest = ({ p->x + 1 }); r += ({ p->x, p->n, p->rest }); }\n");
    if (FEAT (3)) P ("  r += ({ evaluate(function(int q) { return q * 2 + g; }, a), evaluate((: $1 + $(a) :), 5), sizeof(map(({ 1, 2 }), (: base_fn :))), evaluate((: sefun_add, 2 :), 3) });\n");
    if (FEAT (5)) P ("  r += ({ base2_fn(), base2_var, base::shared(a), base2::shared(a) });\n");
    P ("  return r;\n}\n");
    P ("mixed fail(int z) {\n  int d = 7;\n\n  return d / z;\n}\n");
    for (int i = 0; i < v; i++) P ("int edited_%d() { return %d; }\n", i, i);
    P ("mixed fail2(int z) { return A_MACRO(z) / (z - z); }\n");
    break;
  }
#undef P
}

static void set_mtime (const char *path, long t) {
  struct timespec ts[2] = { { t, 0 }, { t, 0 } };
  if (utimensat (AT_FDCWD, path, ts, 0)) vx_obs ("utimensat %s: %s", path, strerror (errno));
}

static void write_src (int f) {
  static char text[200000];
  gen_text (f, ver[f], text, sizeof text);
  FILE *fp = fopen (src_name[f], "w");
  if (!fp) { vx_fail ("C17:harness:cannot-write", "%s: %s", src_name[f], strerror (errno)); vx_child_exit (0); }
  fputs (text, fp);
  fclose (fp);
  set_mtime (src_name[f], mt[f]);
}

static unsigned long file_sig (const char *path, long *mtime_ns) {
  struct stat st;
  if (stat (path, &st)) { if (mtime_ns) *mtime_ns = -1; return 0; }
  if (mtime_ns) *mtime_ns = st.st_mtim.tv_sec * 1000000000L + st.st_mtim.tv_nsec;
  unsigned long h = 1469598103UL + (unsigned long) st.st_size;
  FILE *fp = fopen (path, "rb");
  if (fp) { int c; while ((c = fgetc (fp)) != EOF) h = (h ^ (unsigned) c) * 16777619UL; fclose (fp); }
  return h | 1;
}

/* ------------------------------------------------------------------ reference staleness predicate */
static int keep_inherited;      /* this load keeps the inherited programs that are in memory */
static const char *stale_reason (int b) {
  /* why binary b must not be used (0 = it may be used) */
  static char why[120];
  long t = bin_mt[b];
  if (!bin_exists[b]) return "no-binary";
  if (bin_drv[b] != vw_c17_driver_id ()) return "driver-id-changed";
  if (bin_ver[b][F_SEFUN] != sefun_epoch) return "simul_efun-changed";
  int deps_main[] = { F_MAIN, F_AH, F_BH, -1 }, deps_base[] = { F_BASE, F_CH, -1 }, deps_base2[] = { F_BASE2, -1 }, deps_deep[] = { F_DEEP, -1 };
  int *own = b == B_MAIN ? deps_main : b == B_BASE ? deps_base : b == B_DEEP ? deps_deep : deps_base2;
  for (int i = 0; own[i] >= 0; i++) if (mt[own[i]] > t) { snprintf (why, sizeof why, "%s-newer", own[i] == F_MAIN || own[i] == F_BASE || own[i] == F_BASE2 ? "source" : "include"); return why; }
  if (b == B_BASE && !keep_inherited) {
    if (mt[F_DEEP] > t) return "inherited-source-newer";
    if (bin_exists[B_DEEP] && bin_mt[B_DEEP] > t) return "inherited-binary-newer";
  }
  if (b == B_MAIN && !keep_inherited) {
    if (mt[F_DEEP] > t) return "inherited-source-newer";             /* two levels up: what base.c inherits */
    for (int i = 0; deps_base[i] >= 0; i++) if (mt[deps_base[i]] > t) { snprintf (why, sizeof why, "inherited-%s-newer", deps_base[i] == F_BASE ? "source" : "include"); return why; }
    if (bin_exists[B_BASE] && bin_mt[B_BASE] > t) return "inherited-binary-newer";
    if (FEAT (5)) {
      if (mt[F_BASE2] > t) return "inherited-source-newer";
      if (bin_exists[B_BASE2] && bin_mt[B_BASE2] > t) return "inherited-binary-newer";
    }
  }
  return 0;
}

/* ------------------------------------------------------------------ loading and observing */
static void destruct_all (void) {
  for (object_t *o = obj_list, *nx; o; o = nx) {
    nx = o->next_all;
    if (keep_inherited && strcmp (o->name, "c17/main")) continue;
    if (!strncmp (o->name, "c17/", 4) && !(o->flags & O_DESTRUCTED)) destruct_object (o);
  }
  remove_destructed_objects ();
}
static void set_policy (const char *k, int v) { push_constant_string (k); push_number (v); safe_apply_master_ob ("set_policy", 2); }

static char *results (object_t *ob) {
  /* every function on a fixed argument set, as canonical text; errors with file:line and trace as the master recorded them */
  static char buf[24000];
  size_t k = 0;
  static const struct { int a; const char *s; } args[] = { { 0, "alpha" }, { 1, "beta" }, { 5, "gamma" }, { -3, "north" }, { 1500, "zzz" }, { 77, "" } };
  buf[0] = 0;
  for (int i = 0; i < 6; i++) {
    push_number (args[i].a); push_constant_string (args[i].s);
    svalue_t *r = hx_apply (ob, "run", 2);
    k += (size_t) snprintf (buf + k, sizeof buf - k, "run(%d,%s)=%s\n", args[i].a, args[i].s, r ? hx_canon_s (r) : hx_last_error);
  }
  static const char *fns[] = { "fail", "fail2" };
  for (int i = 0; i < 2; i++) for (int z = 0; z < 2; z++) {
    safe_apply_master_ob ("clear_errors", 0);
    push_number (z);
    svalue_t *r = hx_apply (ob, fns[i], 1);
    k += (size_t) snprintf (buf + k, sizeof buf - k, "%s(%d)=%s", fns[i], z, r ? hx_canon_s (r) : "ERROR ");
    if (!r) { svalue_t *e = safe_apply_master_ob ("query_errors", 0); k += (size_t) snprintf (buf + k, sizeof buf - k, "%s", (e && e != (svalue_t *) -1) ? hx_canon_s (e) : "?"); }
    k += (size_t) snprintf (buf + k, sizeof buf - k, "\n");
  }
  return buf;
}

static void dump_inherits (program_t *p, char **d, size_t *n, int level) {
  for (int i = 0; i < p->num_inherited && level < 4; i++) {
    char *e = pd_dump (p->inherit[i].prog, 0);
    *d = realloc (*d, *n + strlen (e) + 40);
    *n += (size_t) sprintf (*d + *n, "---- inherit %d at level %d\n%s", i, level, e);
    free (e);
    dump_inherits (p->inherit[i].prog, d, n, level + 1);
  }
}
static char *all_dumps (object_t *ob) {
  char *d = pd_dump (ob->prog, 0);
  size_t n = strlen (d);
  dump_inherits (ob->prog, &d, &n, 1);
  return d;
}

static int loads_done, binary_loads, backdated_use;

/* content of a dependency changed after binary b was built, yet its time stamp is not newer (set back explicitly):
 * the property speaks about edits whose modification time is the time of the edit, so such a world is outside its domain */
static int built_from_other_content (int b) {
  int deps_main[] = { F_MAIN, F_AH, F_BH, F_BASE, F_CH, F_BASE2, F_DEEP, -1 }, deps_base[] = { F_BASE, F_CH, F_DEEP, -1 }, deps_base2[] = { F_BASE2, -1 }, deps_deep[] = { F_DEEP, -1 };
  int *d = b == B_MAIN ? deps_main : b == B_BASE ? deps_base : b == B_DEEP ? deps_deep : deps_base2;
  for (int i = 0; d[i] >= 0; i++) if (bin_ver[b][d[i]] != ver[d[i]]) return 1;
  return 0;
}

static object_t *do_load (int save, const char *why) {
  unsigned long sig0[NBIN], sig1[NBIN]; long ns0[NBIN], ns1[NBIN];
  const char *reason[NBIN];
  destruct_all ();
  set_policy ("save_binary", save);
  for (int b = 0; b < NBIN; b++) { sig0[b] = file_sig (bin_name[b], &ns0[b]); reason[b] = stale_reason (b); if (reason[b]) reason[b] = strdup (reason[b]); }
  n_open = 0;
  safe_apply_master_ob ("clear_errors", 0);
  backdated_use = 0;
  object_t *ob = hx_load ("c17/main", 0);
  loads_done++;
  if (!ob) { vx_fail ("C17:load-failed", "%s: main does not load: %s", why, hx_last_error); return 0; }
  /* which binaries were used: the .b was opened and the source was not */
  static const char *srcs[NBIN] = { "c17/main.c", "c17/base.c", "c17/base2.c", "c17/deep.c" };
  for (int b = 0; b < NBIN; b++) {
    if (b == B_BASE2 && !FEAT (5)) continue;
    int used = was_opened (bin_name[b]) && !was_opened (srcs[b]);
    if (selftest == 1 && b == B_MAIN && bin_exists[b]) used = 1;                       /* self-test: the open log claims the binary was used */
    vx_obs ("  %s: %s %s%s%s%s", why, bin_name[b], used ? "USED" : "not used", reason[b] ? " (reference: must not be used: " : "", reason[b] ? reason[b] : "", reason[b] ? ")" : "");
    if (used) {
      binary_loads++;
      if (!reason[b] && built_from_other_content (b)) { backdated_use = 1; vx_obs ("  %s: %s used; a dependency was edited and then given an older time stamp: equivalence is not expected", why, bin_name[b]); }
      if (reason[b]) { char key[160]; snprintf (key, sizeof key, "C17:stale-binary-used:%s:%s", b == B_MAIN ? "main" : "inherited", reason[b]); vx_fail (key, "%s: %s was used although: %s", why, bin_name[b], reason[b]); }
    }
  }
  /* binaries written by this load get the virtual time and remember what they were built from */
  for (int b = 0; b < NBIN; b++) {
    sig1[b] = file_sig (bin_name[b], &ns1[b]);
    if (sig1[b] && (sig1[b] != sig0[b] || ns1[b] != ns0[b])) {
      bin_exists[b] = 1; bin_mt[b] = now_t; set_mtime (bin_name[b], now_t);
      for (int f = 0; f < NSRC; f++) bin_ver[b][f] = ver[f];
      bin_ver[b][F_SEFUN] = sefun_epoch; bin_sefun_file[b] = ver[F_SEFUN];
      bin_drv[b] = vw_c17_driver_id ();
      vx_obs ("  %s: %s written", why, bin_name[b]);
    }
  }
  for (int b = 0; b < NBIN; b++) free ((char *) reason[b]);
  {
    /* Tables inside a program are ordered by the ADDRESSES of shared strings (function names, string-switch labels).
       Once something has been saved, keep these strings alive, allocated in the opposite order: whatever is loaded
       or compiled later sees them at addresses whose order differs from the order at the time of the save. */
    static int perturbed;
    /* source order is b_name typed run fail fail2 / alpha beta gamma north: rotated, so that the new order is not an
       involution of the old one (a table permuted with the inverse permutation would otherwise look right) */
    static const char *names[] = { "run", "fail", "fail2", "b_name", "typed", "gamma", "north", "alpha", "beta", 0 };
    if (!perturbed && (bin_exists[B_MAIN] || bin_exists[B_BASE])) {
      perturbed = 1;
      destruct_all ();          /* the programs release their strings */
      for (int i = 0; names[i]; i++) make_shared_string (names[i]);
      ob = hx_load ("c17/main", 0);
      n_open = 0;
    }
  }
  return ob;
}

static void compare_with_fresh (object_t *ob, const char *why) {
  if (backdated_use) { vx_count (3, 1); return; }
  char *d1 = all_dumps (ob), *r1 = strdup (results (ob));
  int problems = pd_last_problems ();
  /* the reference: CURRENT sources, binaries disabled */
  char *save_dir = CONFIG_STR (__SAVE_BINARIES_DIR__);
  CONFIG_STR (__SAVE_BINARIES_DIR__) = 0;
  destruct_all ();
  object_t *fresh = hx_load ("c17/main", 0);
  CONFIG_STR (__SAVE_BINARIES_DIR__) = save_dir;
  if (!fresh) { vx_fail ("C17:harness:reference-does-not-compile", "%s: %s", why, hx_last_error); free (d1); free (r1); return; }
  char *d2 = all_dumps (fresh), *r2 = results (fresh);
  if (selftest == 2) { char *q = strstr (d2, "[strings]"); if (q) q[1] = 'S'; }           /* self-test: the reference dump is altered */
  char diff[500];
  if (pd_diff (d2, d1, diff, sizeof diff)) {
    /* the key names what differs first: argument types, a size/layout line, code, line table … */
    char key[120]; const char *what = "other";
    if (strstr (diff, "argtypes=")) what = "argument-types";
    else if (strstr (diff, "[sizes:")) what = "layout";
    else if (strstr (diff, "flags=")) what = "function-table";
    else if (strstr (diff, " lines of file") || strstr (diff, "+")) what = "code-or-lines";
    snprintf (key, sizeof key, "C17:program-differs-from-fresh-compile:%s", what);
    vx_fail (key, "%s: dump differs (fresh | loaded): %s", why, diff);
  }
  if (strcmp (r1, r2)) {
    char da[400]; pd_diff (r2, r1, da, sizeof da);
    vx_fail ("C17:results-differ-from-fresh-compile", "%s: call results differ (fresh | loaded): %s", why, da);
  }
  if (problems) vx_fail ("C17:loaded-program-malformed", "%s: structural problems in the loaded program", why);
  if (verbose > 1) vx_obs ("%s", r1);
  free (d1); free (d2); free (r1);
  vx_count (0, 1);
}

/* ------------------------------------------------------------------ operations */
typedef struct { int kind, a, b; char name[40]; } op_t;
enum { O_RELOADMAIN = 20, O_FAILCOMPILE = 21, O_SEFUNEDIT = 22, O_RESTART = 23, O_LOADSAVE = 0, O_LOAD, O_EDIT, O_TOUCH, O_SETREL, O_BINREL, O_DELBIN, O_SEFUN, O_DRIVERID };
static int last_failed;        /* the previous operation was a compile that failed (leaves nothing behind in the model) */
static op_t ops[64]; static int nops, first_new_op, new_first, op_order[64];
static void add_op (int kind, int a, int b, const char *fmt, ...) { va_list ap; op_t *o = &ops[nops++]; o->kind = kind; o->a = a; o->b = b; va_start (ap, fmt); vsnprintf (o->name, sizeof o->name, fmt, ap); va_end (ap); }
static const char *shortn (int f) { static const char *n[] = { "main.c", "a.h", "b.h", "base.c", "c.h", "base2.c", "simul_efun.c", "deep.c" }; return n[f]; }

static void build_ops (void) {
  static const char *rel[] = { "earlier", "equal", "later" };
  add_op (O_LOADSAVE, 0, 0, "load+save");
  add_op (O_LOAD, 0, 0, "load");
  add_op (O_RELOADMAIN, 0, 0, "reload(main only)");
  int files[] = { F_MAIN, F_AH, F_BH, F_BASE, F_CH };
  for (int i = 0; i < 5; i++) add_op (O_EDIT, files[i], 0, "edit(%s)", shortn (files[i]));
  add_op (O_DELBIN, B_MAIN, 0, "delete(main.b)");
  add_op (O_DELBIN, B_BASE, 0, "delete(base.b)");
  if (ops_full) {
    for (int i = 0; i < 5; i++) add_op (O_TOUCH, files[i], 0, "touch(%s)", shortn (files[i]));
    for (int i = 0; i < 5; i++) for (int r = 0; r < 3; r++) add_op (O_SETREL, files[i], r, "mtime(%s)%s", shortn (files[i]), rel[r]);
    for (int r = 0; r < 3; r += 2) add_op (O_BINREL, B_MAIN, r, "mtime(main.b)%s", rel[r]);
    for (int r = 0; r < 3; r++) add_op (O_BINREL, B_BASE, r, "mtime(base.b)%s-than-main.b", rel[r]);
    add_op (O_SEFUN, 0, 0, "touch(simul_efun.c)+restart");
    add_op (O_DRIVERID, 0, 0, "bump(driver_id)");
  }
  /* operations added later come last in both alphabets: the choice numbers stored in older replays keep their meaning */
  first_new_op = nops;
  add_op (O_FAILCOMPILE, 0, 0, "load(unrelated broken file) fails");
  add_op (O_EDIT, F_DEEP, 0, "edit(deep.c)");
  if (ops_full) {
    add_op (O_SEFUNEDIT, 0, 0, "edit(simul_efun.c), driver keeps running");
    add_op (O_RESTART, 0, 0, "restart (stamps taken again)");
  }
  /* --new-first=1: the order in which the alternatives are explored (matters only when a deadline ends the run): load+save, load, the later
     additions and the stamp operations, then the rest */
  { int k = 0, used[64] = { 0 };
    if (new_first) {
      op_order[k++] = 0; used[0] = 1;
      for (int i = nops - 1; i >= first_new_op; i--) { op_order[k++] = i; used[i] = 1; }
      op_order[k++] = 1; used[1] = 1;
      for (int i = 0; i < nops; i++) if (!used[i] && (ops[i].kind == O_SEFUN || ops[i].kind == O_DRIVERID || ops[i].kind == O_RELOADMAIN)) { op_order[k++] = i; used[i] = 1; }
    }
    for (int i = 0; i < nops; i++) if (!used[i]) op_order[k++] = i; }
}

/* "now" is later than every time stamp in the world (explicit times may have been set ahead) */
static void advance_clock (void) {
  for (int f = 0; f < NSRC; f++) if (mt[f] > now_t) now_t = mt[f];
  for (int b = 0; b < NBIN; b++) if (bin_exists[b] && bin_mt[b] > now_t) now_t = bin_mt[b];
  now_t += 10; hx_clock = now_t; current_time = now_t;
}

static void apply_op (op_t *o, int step) {
  char why[80]; snprintf (why, sizeof why, "step %d %s", step, o->name);
  advance_clock ();
  int failed_now = 0;
  switch (o->kind) {
  case O_FAILCOMPILE: {
    /* a file that has nothing to do with main and does not compile: the load fails, nothing else changes */
    object_t *ob = hx_load ("c17/broken", 0);
    if (ob) vx_fail ("C17:harness:broken-file-loads", "%s: c17/broken.c loaded", why);
    failed_now = 1;
    break;
  }
  case O_LOADSAVE: case O_LOAD: case O_RELOADMAIN: {
    /* reload(main only): the inherited programs stay as they are in memory (if any are loaded) */
    keep_inherited = (o->kind == O_RELOADMAIN && find_object_by_name ("c17/base") != 0);
    object_t *ob = do_load (o->kind == O_LOADSAVE, why);
    if (ob) compare_with_fresh (ob, why);
    keep_inherited = 0;
    break;
  }
  case O_EDIT: ver[o->a]++; mt[o->a] = now_t; write_src (o->a); break;
  case O_TOUCH: mt[o->a] = now_t; set_mtime (src_name[o->a], now_t); break;
  case O_SETREL:
    if (!bin_exists[B_MAIN]) { vx_obs ("  (no main.b: no-op)"); break; }
    mt[o->a] = bin_mt[B_MAIN] + (o->b - 1) * 5; set_mtime (src_name[o->a], mt[o->a]); break;
  case O_BINREL:
    if (!bin_exists[o->a]) { vx_obs ("  (no such binary: no-op)"); break; }
    if (o->a == B_MAIN) bin_mt[B_MAIN] += (o->b - 1) * 5000;       /* far earlier / later than everything written so far */
    else { if (!bin_exists[B_MAIN]) { vx_obs ("  (no main.b: no-op)"); break; } bin_mt[o->a] = bin_mt[B_MAIN] + (o->b - 1) * 7; }   /* 7, not 5: never equal to a source set "later" */
    set_mtime (bin_name[o->a], bin_mt[o->a]); break;
  case O_DELBIN: unlink (bin_name[o->a]); bin_exists[o->a] = 0; break;
  case O_SEFUN:
    /* the simul_efun file changes and the driver is restarted: the stamp is taken again as at start-up */
    ver[F_SEFUN]++; mt[F_SEFUN] = now_t; write_src (F_SEFUN); sefun_epoch = ver[F_SEFUN]; sefun_seen_mt = now_t;
    init_binaries ();
    break;
  case O_SEFUNEDIT:
    /* the file changes while the driver runs: the simul_efuns in memory (and the stamp taken at start-up) stay what they were */
    ver[F_SEFUN]++; mt[F_SEFUN] = now_t; write_src (F_SEFUN);
    break;
  case O_RESTART:
    sefun_epoch = ver[F_SEFUN]; sefun_seen_mt = mt[F_SEFUN];
    init_binaries ();
    break;
  case O_DRIVERID: vw_c17_set_driver_id (vw_c17_driver_id () + 1); driver_bumped = 1; break;
  }
  last_failed = failed_now;
  if (o->kind == O_DRIVERID || o->kind == O_SEFUN) {
    /* binaries written from now on carry the new stamps; existing ones are stale by the predicate until rewritten */
  }
}

static int rank_of (long t, long *all, int n) { int r = 0; for (int i = 0; i < n; i++) if (all[i] < t) r++; return r; }

static int explore_variants;
static void body (void) {
  char canon[1500];
  if (explore_variants) prog_variant = vx_choose_free (64, "variant");
  if (pad_mode) pad_reps = pad_from + vx_choose_free (pad_count, "filler");
  /* private root for this execution */
  snprintf (root, sizeof root, "%s/w%d", hx_scratch_dir (), (int) getpid ());
  mkdir (root, 0755);
  if (chdir (root)) { vx_fail ("C17:harness:no-scratch", "chdir %s", root); return; }
  mkdir ("c17", 0755); mkdir ("c17bin", 0755); mkdir ("c17bin/c17", 0755);
  now_t = hx_clock = 1000000000; current_time = now_t;
  for (int f = 0; f < NSRC; f++) { ver[f] = 0; mt[f] = now_t - 1000 + f; write_src (f); }
  sefun_epoch = 0; last_failed = 0;
  { FILE *bf = fopen ("c17/broken.c", "w"); if (bf) { fputs ("int ok() { return 1; }\nint broken( { return 2; }\n", bf); fclose (bf); } }
  init_binaries ();
  for (int step = 0; step < depth; step++) {
    long all[NSRC + NBIN]; int n = 0, k;
    for (int f = 0; f < NSRC; f++) all[n++] = mt[f];
    for (int b = 0; b < NBIN; b++) all[n++] = bin_exists[b] ? bin_mt[b] : -1;
    k = snprintf (canon, sizeof canon, "p%d s%d d%d e%d x%d|", prog_variant, step, driver_bumped, sefun_epoch, last_failed);
    for (int f = 0; f < NSRC; f++) k += snprintf (canon + k, sizeof canon - (size_t) k, "%d@%d,", ver[f], rank_of (mt[f], all, n));
    for (int b = 0; b < NBIN; b++) {
      k += snprintf (canon + k, sizeof canon - (size_t) k, "|%d@%d%s:", bin_exists[b], bin_exists[b] ? rank_of (bin_mt[b], all, n) : -1, bin_exists[b] && bin_drv[b] != vw_c17_driver_id () ? "old-id" : "");
      if (bin_exists[b]) for (int f = 0; f < NSRC; f++) k += snprintf (canon + k, sizeof canon - (size_t) k, "%d.", bin_ver[b][f]);
      if (bin_exists[b]) k += snprintf (canon + k, sizeof canon - (size_t) k, "f%d", bin_sefun_file[b]);
    }
    vx_state (canon, (size_t) k);
    int c = pad_mode ? 0 : op_order[vx_choose_free (nops, "op")];
    vx_obs ("step %d: %s   (driver_id %x config_id %llx)", step, ops[c].name, vw_c17_driver_id (), vw_c17_config_id ());
    apply_op (&ops[c], step);
  }
  /* epilogue: whatever the history left behind, loading main (binary allowed) must equal a fresh compile */
  advance_clock ();
  object_t *ob = do_load (0, "final load");
  if (ob) compare_with_fresh (ob, "final load");
  vx_count (1, loads_done); vx_count (2, binary_loads);
  for (int f = 0; f < NSRC; f++) unlink (src_name[f]);
  unlink ("c17/broken.c");
  for (int b = 0; b < NBIN; b++) unlink (bin_name[b]);
  rmdir ("c17bin/c17"); rmdir ("c17bin"); rmdir ("c17");
  if (chdir (libdir)) {}
  rmdir (root);
}

int main (int argc, char **argv) {
  char cmd[4 * PATH_MAX];
  vx_init_args (argc, argv);
  prog_variant = (int) vx_opt_long ("prog", 63);
  if (prog_variant < 0) { explore_variants = 1; prog_variant = 0; }
  depth = (int) vx_opt_long ("depth", 3);
  selftest = (int) vx_opt_long ("selftest", 0);
  verbose = (int) vx_opt_long ("verbose", 0);
  ops_full = (int) vx_opt_long ("ops-full", 1);
  new_first = (int) vx_opt_long ("new-first", 0);
  snprintf (libdir, sizeof libdir, "%s/lib", hx_scratch_dir ());
  snprintf (cmd, sizeof cmd, "mkdir -p '%s' && cp -r '%s/mudlib/base/.' '%s/' && cp '%s/c18/master.c' '%s/master.c' && mkdir -p '%s/c17bin'", libdir, hx_verif_dir (), libdir, libdir, libdir, libdir);
  if (system (cmd)) { fprintf (stderr, "cannot create scratch mudlib\n"); return 2; }
  hx_boot (libdir, "SaveBinaryDir /c17bin\n", 0);
  build_ops ();
  pad_lines = (int) vx_opt_long ("pad-lines", 0);
  pad_reps = (int) vx_opt_long ("pad-reps", 0);
  if (vx_opt_long ("pad-sweep", 0)) {
    /* where does run() start with r filler expressions?  measured here with two compiles (binaries off), then thrown away */
    long addr[2], len = 0; int reps[2] = { 1000, 3000 };
    char *save_dir = CONFIG_STR (__SAVE_BINARIES_DIR__);
    CONFIG_STR (__SAVE_BINARIES_DIR__) = 0;
    snprintf (root, sizeof root, "%s/cal", hx_scratch_dir ()); mkdir (root, 0755);
    if (chdir (root)) return 2;
    mkdir ("c17", 0755);
    now_t = hx_clock = 1000000000; current_time = now_t;
    for (int k = 0; k < 2; k++) {
      pad_reps = reps[k];
      for (int f = 0; f < NSRC; f++) { ver[f] = 0; mt[f] = now_t - 1000 + f; write_src (f); }
      object_t *ob = hx_load ("c17/main", 0);
      if (!ob) { fprintf (stderr, "h_c17: padded main does not compile: %s\n", hx_last_error); return 2; }
      program_t *pr = ob->prog; long a = -1, next = pr->program_size;
      for (int i = 0; i < pr->num_functions_defined; i++) if (!strcmp (pr->function_table[i].name, "run")) a = pr->function_table[i].address;
      for (int i = 0; i < pr->num_functions_defined; i++) if (pr->function_table[i].address > a && pr->function_table[i].address < next) next = pr->function_table[i].address;
      addr[k] = a; len = next - a;
      destruct_all ();
    }
    for (int f = 0; f < NSRC; f++) unlink (src_name[f]);
    rmdir ("c17"); if (chdir (libdir)) {} rmdir (root);
    CONFIG_STR (__SAVE_BINARIES_DIR__) = save_dir;
    long per = (addr[1] - addr[0]) / (reps[1] - reps[0]);
    if (per <= 0 || addr[0] < 0) { fprintf (stderr, "h_c17: cannot calibrate the filler (%ld %ld)\n", addr[0], addr[1]); return 2; }
    long base = addr[0] - per * reps[0];
    /* run() from [32767 - len - 60, 32767 + 60]: every byte of the function, its switch instruction and its table, passes 32767 */
    pad_from = (int) ((32767 - len - 60 - base) / per); pad_count = (int) ((len + 120) / per) + 2; pad_mode = 1; pad_reps = 0;
    fprintf (stderr, "h_c17: run() is %ld bytes, starts at %ld + %ld per filler expression: sweeping %d..%d expressions\n", len, base, per, pad_from, pad_from + pad_count - 1);
    if (depth != 1) depth = 1;
  }
  vx_count_name (0, "loads_compared_with_fresh_compile"); vx_count_name (1, "loads"); vx_count_name (2, "binaries_used"); vx_count_name (3, "loads_outside_domain_backdated_edit");
  {
    extern int __sanitizer_symbolize_pc (void *, const char *, char *, size_t) __attribute__ ((weak));
    char sym[256];
    if (__sanitizer_symbolize_pc) __sanitizer_symbolize_pc ((void *) load_object, "%f", sym, sizeof sym);
  }
  return vx_run (argc, argv, body);
}
