/* C07 — calls reach the right function and respect visibility, whatever came before.
 *
 * vx --enum over PROGRAM SETS (one element = one inheritance graph with one assignment of
 * declaration kinds / inherit modifiers, under one address/id "salt").  For each element:
 *   compile the set on the real compiler (twice, under two path prefixes), compare acceptance with
 *   the reference model, compute the result of every call of the alphabet on a COLD apply cache,
 *   check visibility and the reference resolver on the cold results, then run EVERY history of
 *   length <= --len over the alphabet (and, with --prune-depth, every distinct cache state reachable
 *   within that depth) and compare each call with its cold result.
 * Linked against wrap/w_apply_small.c (cache scaled to 2 entries) or wrap/w_apply_full.c (2048).
 */
#include "hx.h"
#include <sys/stat.h>
#include <ctype.h>

extern int vw_cache_size (void);
extern int vw_cache_canon (char *buf, int len);
extern int vw_cache_probe (program_t *prog, const char *fun);
extern int vw_cache_slot (int prog_id, const char *fun);
extern void f_call_other (void);
extern int st_num_arg;
extern int get_id_number (void);

/* ------------------------------------------------------------------ program sets */
#define MAXP 5
enum { K_ABSENT, K_PROTO, K_PUBLIC, K_STATIC, K_PRIVATE, K_PROTECTED, K_NOMASK, K_VARARGS, K_PROTO_EARLY, NKIND };
static const char *kname[] = { "absent", "proto", "public", "static", "private", "protected", "nomask", "varargs", "proto-early" };
static const char *kdecl[] = { "", "", "", "static ", "private ", "protected ", "nomask ", "varargs ", "" };
enum { M_PLAIN, M_PRIVATE, M_STATIC, NMOD };
static const char *mname[] = { "plain", "private", "static" };
static const char *mdecl[] = { "", "private ", "static " };

#define MF_STATIC 1
#define MF_PRIVATE 2
#define MF_PROTECTED 4
#define MF_NOMASK 8
#define MF_VARARGS 16
#define MF_HIDDEN 32
#define MF_PROTO 64
#define MF_RESTRICTED (MF_STATIC | MF_PRIVATE | MF_PROTECTED)

typedef struct {
  char nm[2];                   /* "A" */
  int kind;
  int npar, par[2], mod[2];
  /* reference model (compute_model) */
  int has;                      /* the program's function table has an entry for f */
  int real;                     /* ... that leads to code */
  unsigned fl;                  /* modelled modifier flags of that entry */
  int rdef;                     /* program whose definition a call by name / a local call reaches (-1: none) */
  char rpath[8];                /* ... and the inherit branches taken from this program down to it ("" = own definition) */
  int up;                       /* program whose definition ::f() written in this program reaches (-1: none) */
  int upbr;                     /* ... through which parent */
  int pdef[2];                  /* ... P::f() for each parent */
  int reject;                   /* the compiler must reject this program */
  const char *reject_why;
} prog_t;

typedef struct pset_s {
  int graph;                    /* 7 qualified super calls; 1 chain2, 2 chain3, 3 diamond, 4 two unrelated parents, 5 compression shape, 6 diamond + one level */
  int nprog;
  prog_t p[MAXP];
  int top;
  int ntgt, tprog[4], tclone[4];
  int hshape;                   /* graph 5 */
  int qn, qi[3], qhas[3];       /* graph 7: inherit list (indices into QN[]) and which of them define f */
} pset;

static const int G3A[] = { K_PUBLIC, K_STATIC, K_PRIVATE, K_NOMASK };
static const int G3BC[] = { K_ABSENT, K_PROTO, K_PUBLIC, K_STATIC, K_PRIVATE, K_PROTECTED, K_PROTO_EARLY };
static const int G3D[] = { K_ABSENT, K_PUBLIC, K_PRIVATE, K_VARARGS };
#define N_G1 (8L * 9 * 3)
#define N_G2 (8L * 9 * 9 * 3 * 3)
#define N_G3 (4L * 7 * 7 * 4 * 3 * 3)
#define N_G4 (8L * 8 * 9 * 3 * 3)
#define N_G5 14L
#define N_G6 (4L * 2 * 2 * 2 * 3)
#define N_G7 (56L * 3 + 6)
#define N_SETS (N_G1 + N_G2 + N_G3 + N_G4 + N_G5 + N_G6 + N_G7)

/* graph 7: qualified super calls name::f() over inherit lists whose file names are in suffix / prefix / same-basename relations */
static const char *QN[] = { "a", "ba", "ab", "a_b", "b", "d1/a", "d2/a", "d1/ba" };
#define NQ 8
static const char *q_base (const char *n) { const char *s = strrchr (n, '/'); return s ? s + 1 : n; }
static void decode_qual (long j, struct pset_s *S);
static void setp (prog_t *p, char nm, int kind) { memset (p, 0, sizeof *p); p->nm[0] = nm; p->kind = kind; p->rdef = p->up = p->pdef[0] = p->pdef[1] = -1; }
static void addpar (prog_t *p, int par, int mod) { p->par[p->npar] = par; p->mod[p->npar] = mod; p->npar++; }
static void addtgt (pset *S, int prog, int clone) { S->tprog[S->ntgt] = prog; S->tclone[S->ntgt] = clone; S->ntgt++; }

static void decode_qual (long j, pset *S) {
  S->graph = 7;
  if (j < 56 * 3) {
    int pi = (int) (j / 3), kc = (int) (j % 3), i1 = pi / 7, r = pi % 7;
    S->qn = 2; S->qi[0] = i1; S->qi[1] = r >= i1 ? r + 1 : r;
    S->qhas[0] = kc != 2; S->qhas[1] = kc != 1;          /* both define f / only the first / only the second */
  } else {
    static const int P[6][3] = { { 0, 1, 6 }, { 0, 6, 1 }, { 1, 0, 6 }, { 1, 6, 0 }, { 6, 0, 1 }, { 6, 1, 0 } };   /* a, ba, d2/a in every order */
    int k = (int) (j - 56 * 3);
    S->qn = 3;
    for (int x = 0; x < 3; x++) { S->qi[x] = P[k][x]; S->qhas[x] = 1; }
  }
}
static void decode_set (long i, pset *S) {
  memset (S, 0, sizeof *S);
  if (i < N_G1) {
    S->graph = 1; S->nprog = 2; S->top = 1;
    setp (&S->p[0], 'A', (int) (i % 8)); i /= 8;
    setp (&S->p[1], 'B', (int) (i % 9)); i /= 9;
    addpar (&S->p[1], 0, (int) (i % 3));
    addtgt (S, 1, 0); addtgt (S, 0, 0); addtgt (S, 1, 1);
    return;
  }
  i -= N_G1;
  if (i < N_G2) {
    S->graph = 2; S->nprog = 3; S->top = 2;
    setp (&S->p[0], 'A', (int) (i % 8)); i /= 8;
    setp (&S->p[1], 'B', (int) (i % 9)); i /= 9;
    setp (&S->p[2], 'E', (int) (i % 9)); i /= 9;
    addpar (&S->p[1], 0, (int) (i % 3)); i /= 3;
    addpar (&S->p[2], 1, (int) (i % 3));
    addtgt (S, 2, 0); addtgt (S, 1, 0); addtgt (S, 2, 1);
    return;
  }
  i -= N_G2;
  if (i < N_G3) {
    S->graph = 3; S->nprog = 4; S->top = 3;
    setp (&S->p[0], 'A', G3A[i % 4]); i /= 4;
    setp (&S->p[1], 'B', G3BC[i % 7]); i /= 7;
    setp (&S->p[2], 'C', G3BC[i % 7]); i /= 7;
    setp (&S->p[3], 'D', G3D[i % 4]); i /= 4;
    addpar (&S->p[1], 0, M_PLAIN);
    addpar (&S->p[2], 0, M_PLAIN);
    addpar (&S->p[3], 1, (int) (i % 3)); i /= 3;
    addpar (&S->p[3], 2, (int) (i % 3));
    addtgt (S, 3, 0); addtgt (S, 1, 0); addtgt (S, 2, 0); addtgt (S, 3, 1);
    return;
  }
  i -= N_G3;
  if (i < N_G4) {
    S->graph = 4; S->nprog = 3; S->top = 2;
    setp (&S->p[0], 'P', (int) (i % 8)); i /= 8;
    setp (&S->p[1], 'Q', (int) (i % 8)); i /= 8;
    setp (&S->p[2], 'D', (int) (i % 9)); i /= 9;
    addpar (&S->p[2], 0, (int) (i % 3)); i /= 3;
    addpar (&S->p[2], 1, (int) (i % 3));
    addtgt (S, 2, 0); addtgt (S, 1, 0); addtgt (S, 2, 1);
    return;
  }
  i -= N_G4;
  if (i >= N_G6 + N_G7) { S->graph = 5; S->hshape = (int) (i - N_G6 - N_G7); return; }
  if (i >= N_G6) { decode_qual (i - N_G6, S); return; }
  {
    static const int KA[] = { K_PUBLIC, K_STATIC, K_PRIVATE, K_PROTECTED }, KB[] = { K_ABSENT, K_PUBLIC };
    S->graph = 6; S->nprog = 5; S->top = 4;
    setp (&S->p[0], 'A', KA[i % 4]); i /= 4;
    setp (&S->p[1], 'B', KB[i % 2]); i /= 2;
    setp (&S->p[2], 'C', KB[i % 2]); i /= 2;
    setp (&S->p[3], 'D', K_ABSENT);
    setp (&S->p[4], 'E', KB[i % 2]); i /= 2;
    addpar (&S->p[1], 0, M_PLAIN); addpar (&S->p[2], 0, M_PLAIN);
    addpar (&S->p[3], 1, M_PLAIN); addpar (&S->p[3], 2, M_PLAIN);
    addpar (&S->p[4], 3, (int) (i % 3));
    addtgt (S, 4, 0); addtgt (S, 3, 0); addtgt (S, 4, 1);
  }
}

/* ------------------------------------------------------------------ reference model of the inheritance rules
 * (lib/lpc/compiler.c copy_function / overload_function / define_new_function, grammar.y)            */
static unsigned kind_flags (int k) {
  switch (k) {
  case K_STATIC: return MF_STATIC;
  case K_PRIVATE: return MF_PRIVATE;
  case K_PROTECTED: return MF_PROTECTED;
  case K_NOMASK: return MF_NOMASK;
  case K_VARARGS: return MF_VARARGS;
  }
  return 0;
}
static int is_def (int k) { return k >= K_PUBLIC && k <= K_VARARGS; }

static void compute_model (pset *S) {
  for (int x = 0; x < S->nprog; x++) {
    prog_t *X = &S->p[x];
    int has = 0, real = 0, rdef = -1; unsigned fl = 0;
    char rpath[8] = "";
    if (X->kind == K_PROTO_EARLY || (X->kind == K_PROTO && 0)) { has = 1; real = 0; fl = MF_PROTO; }
    X->reject = 0; X->reject_why = 0;
    for (int j = 0; j < X->npar; j++) {
      prog_t *P = &S->p[X->par[j]];
      if (P->reject) { X->reject = 1; X->reject_why = "parent rejected"; }
      if (!P->has) continue;
      unsigned e = P->fl;
      if (e & MF_PRIVATE) e |= MF_HIDDEN;
      if (X->mod[j] == M_PRIVATE) e |= MF_PRIVATE;
      if (X->mod[j] == M_STATIC) e |= MF_STATIC;
      if (!has) { has = 1; real = P->real; fl = e; rdef = P->rdef; snprintf (rpath, sizeof rpath, "%d%s", j, P->rpath); }
      else {
        /* overload_function(): a later inherit with code replaces an entry not defined at this level;
           it may not replace a nomask function */
        if (P->real) {
          if (real && (fl & MF_NOMASK)) { X->reject = 1; X->reject_why = "second inherit redefines nomask"; }
          real = 1; fl = e; rdef = P->rdef; snprintf (rpath, sizeof rpath, "%d%s", j, P->rpath);
        }
      }
    }
    /* ::f() / P::f(): first parent (in inherit order) in which a definition is found */
    X->up = -1;
    for (int j = 0; j < X->npar; j++) {
      prog_t *P = &S->p[X->par[j]];
      X->pdef[j] = P->real ? P->rdef : -1;
      if (X->up < 0 && X->pdef[j] >= 0) { X->up = X->pdef[j]; X->upbr = j; }
    }
    if (is_def (X->kind)) {
      if (has && (fl & MF_NOMASK) && !(fl & MF_PROTO)) { X->reject = 1; X->reject_why = "redefines inherited nomask"; }
      /* a definition is checked against an inherited prototype: string f() vs varargs string f(string) */
      if (has && (fl & MF_PROTO) && X->kind == K_VARARGS) { X->reject = 1; X->reject_why = "argument count disagrees with inherited prototype"; }
      has = 1; real = 1; fl = kind_flags (X->kind); rdef = x; rpath[0] = 0;
    } else if (X->kind == K_PROTO) {
      if (!has) { has = 1; real = 0; fl = MF_PROTO; rdef = -1; }
    }
    X->has = has; X->real = real; X->fl = fl; X->rdef = real ? rdef : -1;
    snprintf (X->rpath, sizeof X->rpath, "%s", real ? rpath : "");
  }
}
static int set_rejected (const pset *S, const char **why) {
  for (int x = 0; x < S->nprog; x++) if (S->p[x].reject) { if (why) *why = S->p[x].reject_why; return x; }
  return -1;
}

/* ------------------------------------------------------------------ LPC text of one program */
static char lower (char c) { return (char) tolower ((unsigned char) c); }

static int gen_compress_source (const pset *S, int pi, const char *pre, int binmode, char *b, int cap);

static int gen_source (const pset *S, int pi, const char *pre, int binmode, char *b, int cap) {
  if (S->graph == 5) return gen_compress_source (S, pi, pre, binmode, b, cap);
  const prog_t *X = &S->p[pi];
  char N = X->nm[0], l = lower (N);
  int n = 0;
#define EMIT(...) n += snprintf (b + n, cap - n, __VA_ARGS__)
  EMIT ("// C07 generated program %c (f: %s)\n", N, kname[X->kind]);
  if (binmode) EMIT ("#pragma save_binary\n");
  if (X->kind == K_PROTO_EARLY) EMIT ("string f();\n");
  for (int j = 0; j < X->npar; j++) EMIT ("%sinherit \"/%s/%s\";\n", mdecl[X->mod[j]], pre, S->p[X->par[j]].nm);
  for (int k = 0; k < pi; k++) EMIT ("string pad%c%d = \"p%c%d\";\n", N, k, l, k);
  EMIT ("string v%c = \"v%c\";\n", N, l);
  EMIT ("void setv_%c(string s) { v%c = s; }\n", N, N);
  if (X->kind == K_PROTO) EMIT ("string f();\n");
  else if (X->kind == K_VARARGS) EMIT ("varargs string f(string x) { ran(\"%c.f\"); return \"%c.f:\" + v%c + (x ? x : \"\"); }\n", N, N, N);
  else if (is_def (X->kind)) EMIT ("%sstring f() { ran(\"%c.f\"); return \"%c.f:\" + v%c; }\n", kdecl[X->kind], N, N, N);
  EMIT ("string g() { ran(\"%c.g\"); return \"%c.g:\" + v%c; }\n", N, N, N);
  /* function pointers made at this level (to a local function that reads a variable of this level and makes a local call,
     with and without a bound argument, and an anonymous one reading the variable), and an evaluator at this level */
  EMIT ("string lf%c(string a) { ran(\"%c.lf\"); return \"%c.lf:\" + v%c + a + \"/\" + g(); }\n", N, N, N, N);
  EMIT ("mixed mk%c(int k) { switch (k) { case 0: return (: lf%c, \"k\" :); case 1: return (: lf%c :); case 2: return (: $1 + v%c :);", N, N, N, N);
  if (pi == S->top && X->has) EMIT (" case 3: return (: f :);");
  EMIT (" } return 0; }\n");
  EMIT ("mixed ev%c(function p, int how) { if (!how) return evaluate(p, \"e\"); return map_array(({ \"e\" }), p)[0]; }\n", N);
  if (X->up >= 0) EMIT ("string up%c_f() { ran(\"%c.up\"); return \"%c.up>\" + ::f(); }\n", N, N, N);
  if (X->npar == 2)
    for (int j = 0; j < 2; j++)
      if (X->pdef[j] >= 0)
        EMIT ("string via%c_f() { ran(\"%c.via%c\"); return \"%c.via%c>\" + %c::f(); }\n", S->p[X->par[j]].nm[0], N, S->p[X->par[j]].nm[0], N,
              S->p[X->par[j]].nm[0], S->p[X->par[j]].nm[0]);
  if (pi == S->top) {
    if (X->has && !(X->fl & MF_HIDDEN)) EMIT ("string tramp_f() { ran(\"T.t\"); return \"t>\" + f(); }\n");
    if (X->has) EMIT ("string fp_f() { ran(\"T.fp\"); return \"fp>\" + evaluate((: f :)); }\n");
    /* a callee with many locals: setup_variables() is where a nearly full value stack overflows */
    EMIT ("string lots() { int l0");
    for (int k = 1; k < 24; k++) EMIT (", l%d", k);
    EMIT ("; ran(\"T.lots\"); return \"lots:\" + v%c; }\n", N);
  }
  return n;
}

/* ------------------------------------------------------------------ compression shapes (graph 5)
 * A defines h0..h(M-1); B inherits A and overrides a run in the middle; N = number of overridden
 * functions straddles the one-byte index of the compressed offset table (254..258).
 * Shapes 10..13: D inherits P and Q and overrides functions in the middle of both inherited runs. */
typedef struct { int two; int M, lo, n; int M2, lo2, n2; } hshape_t;
static hshape_t hshape_of (int s) {
  hshape_t h; memset (&h, 0, sizeof h);
  static const int NS[] = { 1, 2, 254, 255, 256, 257, 258, 300, 255, 256 };
  if (s < 10) {
    h.n = NS[s];
    h.lo = s >= 8 ? 0 : 5;                     /* shapes 8, 9: the overridden run starts at the first inherited function */
    h.M = h.lo + h.n + 7;
  } else {
    static const int T[4][6] = { { 12, 3, 4, 12, 5, 3 }, { 12, 0, 2, 12, 10, 2 }, { 270, 4, 256, 20, 3, 5 }, { 20, 3, 5, 270, 4, 257 } };
    const int *t = T[s - 10];
    h.two = 1; h.M = t[0]; h.lo = t[1]; h.n = t[2]; h.M2 = t[3]; h.lo2 = t[4]; h.n2 = t[5];
  }
  return h;
}
static void decode_compress (pset *S) {
  hshape_t h = hshape_of (S->hshape);
  if (!h.two) {
    S->nprog = 2; S->top = 1;
    setp (&S->p[0], 'A', K_PUBLIC); setp (&S->p[1], 'B', K_ABSENT); addpar (&S->p[1], 0, M_PLAIN);
    addtgt (S, 1, 0); addtgt (S, 0, 0); addtgt (S, 1, 1);
  } else {
    S->nprog = 3; S->top = 2;
    setp (&S->p[0], 'P', K_PUBLIC); setp (&S->p[1], 'Q', K_ABSENT); setp (&S->p[2], 'D', K_ABSENT);
    addpar (&S->p[2], 0, M_PLAIN); addpar (&S->p[2], 1, M_PLAIN);
    addtgt (S, 2, 0); addtgt (S, 1, 0); addtgt (S, 2, 1);
  }
}
/* which program defines h<i> (family 'h' lives in A / P, family 'k' in Q) as seen from program x */
static int h_overridden (const hshape_t *h, int fam, int i) {
  return fam == 0 ? (i >= h->lo && i < h->lo + h->n) : (i >= h->lo2 && i < h->lo2 + h->n2);
}
static int gen_compress_source (const pset *S, int pi, const char *pre, int binmode, char *b, int cap) {
  hshape_t h = hshape_of (S->hshape);
  const prog_t *X = &S->p[pi];
  char N = X->nm[0], l = lower (N);
  int n = 0;
  EMIT ("// C07 compression shape %d program %c\n", S->hshape, N);
  if (binmode) EMIT ("#pragma save_binary\n");
  for (int j = 0; j < X->npar; j++) EMIT ("inherit \"/%s/%s\";\n", pre, S->p[X->par[j]].nm);
  for (int k = 0; k < pi; k++) EMIT ("string pad%c%d = \"p%c%d\";\n", N, k, l, k);
  EMIT ("string v%c = \"v%c\";\n", N, l);
  EMIT ("void setv_%c(string s) { v%c = s; }\n", N, N);
  int base = (pi == 0), base2 = (h.two && pi == 1), topp = (pi == S->top);
  if (base) EMIT ("string f() { ran(\"%c.f\"); return \"%c.f:\" + v%c; }\n", N, N, N);
  EMIT ("string g() { ran(\"%c.g\"); return \"%c.g:\" + v%c; }\n", N, N, N);
  if (base || base2) {
    char fam = base ? 'h' : 'k';
    int M = base ? h.M : h.M2;
    for (int i = 0; i < M; i++) EMIT ("string %c%d() { return \"%c.%c%d:\" + v%c; }\n", fam, i, N, fam, i, N);
    /* local calls compiled at the base level (virtual: resolved in the object's own table);
       dispatchers of 50 cases each: a longer switch exhausts the parser stack */
    for (int c = 0; c * 50 < M; c++) {
      EMIT ("string loc%c%d(int i) { switch (i) {\n", N, c);
      for (int i = c * 50; i < M && i < c * 50 + 50; i++) EMIT ("case %d: return %c%d();\n", i, fam, i);
      EMIT ("} return \"?\"; }\n");
    }
  }
  if (topp) {
    for (int i = h.lo; i < h.lo + h.n; i++) EMIT ("string h%d() { return \"%c.h%d:\" + v%c; }\n", i, N, i, N);
    if (h.two) for (int i = h.lo2; i < h.lo2 + h.n2; i++) EMIT ("string k%d() { return \"%c.k%d:\" + v%c; }\n", i, N, i, N);
    for (int fam = 0; fam < (h.two ? 2 : 1); fam++) {
      int M = fam ? h.M2 : h.M; char fc = fam ? 'k' : 'h';
      for (int c = 0; c * 50 < M; c++) {
        EMIT ("string loc%c%c%d(int i) { switch (i) {\n", N, fc, c);
        for (int i = c * 50; i < M && i < c * 50 + 50; i++) EMIT ("case %d: return %c%d();\n", i, fc, i);
        EMIT ("} return \"?\"; }\n");
        EMIT ("string sup%c%d(int i) { switch (i) {\n", fc, c);
        for (int i = c * 50; i < M && i < c * 50 + 50; i++) if (h_overridden (&h, fam, i)) EMIT ("case %d: return ::%c%d();\n", i, fc, i);
        EMIT ("} return \"?\"; }\n");
      }
    }
    EMIT ("string tramp_f() { ran(\"T.t\"); return \"t>\" + f(); }\n");
    EMIT ("string fp_f() { ran(\"T.fp\"); return \"fp>\" + evaluate((: f :)); }\n");
  }
  return n;
}
#undef EMIT

/* ------------------------------------------------------------------ run-time side */
enum { N_F, N_G, N_Z, NNAME };
static const char *name_txt[NNAME] = { "f", "g", "zz_absent" };
static char *sname[NNAME];                    /* shared-string pointers (as call_other / call_out / add_action pass them) */
static char lit_f[] = "f";                    /* a C literal, as most driver applies pass */
enum { O_CO, O_COLPC, O_DRV, O_DRVLIT, O_COUT, O_TRAMP, O_FP, O_FEX, O_DEEP,
       O_COPATH, O_COPATHU, O_COARR, O_COARRMIX, O_LOTS, O_LOTSFULL, NORG };
static const char *oname[NORG] = { "call_other", "call_other-lpc", "driver", "driver-literal", "call_out", "local", "funptr", "function_exists",
                                   "call_other-at-max-call-depth",
                                   "call_other-by-loaded-path", "call_other-by-unloaded-path", "call_other-on-array-of-objects",
                                   "call_other-on-array-with-unloaded-path", "driver-lots", "driver-lots-on-nearly-full-value-stack" };
static char u_path[64], u_name[64];           /* "/c07u<idx>/U": a copy of the most derived program that call_other loads on demand */
static char top_path[64];
static int ndeep;                              /* recursion count that leaves no room for the callee's frame (calibrated per element) */

typedef struct { int tgt, name, org; } letter_t;
#define MAXL 80
static char *held[1200]; static int nheld;        /* name strings created by the salt (address order), references kept */
#define NSALTN 25
static int opt_len, opt_prune, opt_salts, opt_bin, opt_deep, opt_extra;
static letter_t L[MAXL];
static int nL, nD, nX;                        /* normal letters [0,nL), call_other-at-max-call-depth letters [nL,nL+nD),
                                                 letters with other target forms / a nearly full value stack [nL+nD,nL+nD+nX) */
static int u_used;                            /* the on-demand copy may be loaded */
static char *cold[MAXL];

static object_t *caller_ob;
static object_t *tob[4];                      /* target objects */
static pset S;
static int salt, selftest;
static const char *cur_pre;

static void reset_rlog (void) {
  svalue_t *v = &simul_efun_ob->variables[0];
  free_svalue (v, "c07");
  v->type = T_STRING; v->subtype = STRING_CONSTANT; v->u.string = "";
}
static const char *get_rlog (void) {
  svalue_t *v = &simul_efun_ob->variables[0];
  return v->type == T_STRING ? v->u.string : "?";
}

struct coarg { object_t *o; char *name; char out[600]; int form; object_t *o2; };
static void co_direct (void *p) {
  struct coarg *a = p;
  current_object = caller_ob;
  switch (a->form) {
  case O_COPATH: copy_and_push_string (top_path); break;
  case O_COPATHU: copy_and_push_string (u_path); break;
  case O_COARR: case O_COARRMIX: {
    array_t *v = allocate_array (2);
    v->item[0].type = T_OBJECT; v->item[0].u.ob = a->o; add_ref (a->o, "c07");
    if (a->form == O_COARR) { v->item[1].type = T_OBJECT; v->item[1].u.ob = a->o2; add_ref (a->o2, "c07"); }
    else { v->item[1].type = T_STRING; v->item[1].subtype = STRING_SHARED; v->item[1].u.string = make_shared_string (u_path); }
    push_refed_array (v);
    break;
  }
  default: push_object (a->o);
  }
  push_shared_string (a->name);
  st_num_arg = 2;
  f_call_other ();
  snprintf (a->out, sizeof a->out, "%s", hx_canon_s (sp));
  pop_stack ();
  current_object = 0;
}

/* one call of the alphabet; returns "result|functions that ran" */
static char *do_call (object_t *o, int org, const char *name, char *shname) {
  static char obs[2][1400]; static int k;
  char *out = obs[k++ & 1];
  char res[700];
  svalue_t *r = 0;
  int applied = 1;
  svalue_t *sp0 = sp;
  reset_rlog ();
  switch (org) {
  case O_LOTS: r = hx_apply_origin (o, "lots", 0, ORIGIN_DRIVER); break;
  case O_LOTSFULL: {
    /* fill the value stack so that the control frame and (no) arguments fit, the callee's 24 locals do not */
    long room = 12, pad = (long) (end_of_stack - sp) - room;
    for (long k = 0; k < pad; k++) push_number (0);
    r = hx_apply_origin (o, "lots", 0, ORIGIN_DRIVER);
    break;
  }
  case O_COPATH: case O_COPATHU: case O_COARR: case O_COARRMIX:
  case O_CO: {
    struct coarg a; a.o = o; a.name = shname; a.out[0] = 0; a.form = org; a.o2 = tob[S.ntgt - 1];
    applied = 0;
    if (hx_guard (co_direct, &a)) { current_object = 0; snprintf (res, sizeof res, "ERR:%.200s", hx_last_error); }
    else snprintf (res, sizeof res, "%s", a.out);
    break;
  }
  case O_COLPC: {
    char fn[16]; snprintf (fn, sizeof fn, "co_%c", name[0]);
    push_object (o);
    r = hx_apply_origin (caller_ob, fn, 1, ORIGIN_DRIVER);
    break;
  }
  case O_DEEP:
    push_number (ndeep); push_object (o);
    r = hx_apply_origin (caller_ob, "deep_f", 2, ORIGIN_DRIVER);
    break;
  case O_DRV: r = hx_apply_origin (o, shname, 0, ORIGIN_DRIVER); break;
  case O_DRVLIT: r = hx_apply_origin (o, name, 0, ORIGIN_DRIVER); break;
  case O_COUT: r = hx_apply_origin (o, shname, 0, ORIGIN_CALL_OUT); break;
  case O_TRAMP: r = hx_apply_origin (o, "tramp_f", 0, ORIGIN_DRIVER); break;
  case O_FP: r = hx_apply_origin (o, "fp_f", 0, ORIGIN_DRIVER); break;
  case O_FEX: {
    applied = 0;
    current_object = caller_ob;
    char *s = function_exists (name, o, 0);
    current_object = 0;
    snprintf (res, sizeof res, "fex:%s", s ? s : "0");
    /* programs are compiled under two path prefixes; keep the observation prefix-free */
    char *q = strstr (res, cur_pre);
    if (q) memmove (q, q + strlen (cur_pre) + 1, strlen (q + strlen (cur_pre) + 1) + 1);
    break;
  }
  }
  if (applied) {
    if (r) snprintf (res, sizeof res, "%s", hx_canon_s (r));
    else if (!strncmp (hx_last_error, "*hx: no such function", 21)) snprintf (res, sizeof res, "NOFUN");
    else snprintf (res, sizeof res, "ERR:%.200s", hx_last_error);
  }
  /* an error leaves the arguments pushed before the error context was saved (as safe_apply() does): drop them */
  if (sp > sp0) pop_n_elems ((int) (sp - sp0));
  for (char *q = res; *q; q++) if (*q == '\n') *q = ' ';
  snprintf (out, sizeof obs[0], "%s|%s", res, get_rlog ());
  return out;
}
static char *do_letter (int li) {
  const letter_t *l = &L[li];
  return do_call (tob[l->tgt], l->org, l->name == N_F && l->org == O_DRVLIT ? lit_f : name_txt[l->name], sname[l->name]);
}
static void letter_text (int li, char *b, size_t n) {
  const letter_t *l = &L[li];
  snprintf (b, n, "%s(%s%s,%s)", oname[l->org], S.p[S.tprog[l->tgt]].nm, S.tclone[l->tgt] ? "#clone" : "", name_txt[l->name]);
}

static void describe_set (const pset *s, int slt, char *b, size_t n) {
  int k = 0;
  static const char *gn[] = { "?", "chain2", "chain3", "diamond", "two-parents", "compress", "diamond-plus-one", "qualified-super-calls" };
  k += snprintf (b + k, n - k, "%s salt=%d", gn[s->graph], slt);
  if (s->graph == 7) {
    k += snprintf (b + k, n - k, " T inherits");
    for (int x = 0; x < s->qn; x++) k += snprintf (b + k, n - k, " %s{%s}", QN[s->qi[x]], s->qhas[x] ? "f" : "no f");
    return;
  }
  if (s->graph == 5) {
    hshape_t h = hshape_of (s->hshape);
    k += snprintf (b + k, n - k, " shape=%d %s M=%d override[%d..%d)", s->hshape, h.two ? "two-inherits" : "one-inherit", h.M, h.lo, h.lo + h.n);
    if (h.two) k += snprintf (b + k, n - k, " M2=%d override2[%d..%d)", h.M2, h.lo2, h.lo2 + h.n2);
    return;
  }
  for (int x = 0; x < s->nprog; x++) {
    const prog_t *X = &s->p[x];
    k += snprintf (b + k, n - k, " %s{f:%s", X->nm, kname[X->kind]);
    for (int j = 0; j < X->npar; j++) k += snprintf (b + k, n - k, " %s-inherit %s", mname[X->mod[j]], s->p[X->par[j]].nm);
    k += snprintf (b + k, n - k, "}");
  }
}

/* ------------------------------------------------------------------ compile one copy of the set */
static char clog_txt[4000];
static int load_set (const char *pre, int binmode, object_t **blue, int from_disk) {
  /* returns -1 if all programs loaded, else the index of the first program that failed; clog_txt = compiler messages */
  static char src[200000];
  clog_txt[0] = 0;
  for (int x = 0; x < S.nprog; x++) {
    char nm[64];
    snprintf (nm, sizeof nm, "/%s/%s.c", pre, S.p[x].nm);
    int n = gen_source (&S, x, pre, binmode, src, sizeof src);
    if (n >= (int) sizeof src - 1) { vx_fail ("C07:harness:source-too-long", "program text truncated"); return x; }
    object_t *ob;
    if (from_disk) {
      char path[PATH_MAX];
      snprintf (path, sizeof path, "%s/%s.c", pre, S.p[x].nm);
      if (from_disk == 1) {
        FILE *f = fopen (path, "w");
        if (!f) { vx_fail ("C07:harness:cannot-write-source", "%s: %s", path, strerror (errno)); return x; }
        fwrite (src, 1, (size_t) n, f); fclose (f);
      }
      ob = hx_load (nm, 0);
    } else ob = hx_load (nm, src);
    char *cl = hx_master_str ("take_clog");
    size_t k = strlen (clog_txt);
    snprintf (clog_txt + k, sizeof clog_txt - k, "%s", cl);
    if (!ob) {
      k = strlen (clog_txt);
      snprintf (clog_txt + k, sizeof clog_txt - k, " [%.300s]", hx_last_error);
      return x;
    }
    blue[x] = ob;
  }
  return -1;
}
/* normalise a compiler log: drop the path prefix */
static void strip_pre (char *s, const char *pre) {
  size_t n = strlen (pre);
  for (char *q; (q = strstr (s, pre));) memmove (q, q + n, strlen (q + n) + 1);
}

static object_t *do_clone (const char *name) {
  error_context_t econ; object_t *c = 0;
  save_context (&econ);
  if (setjmp (econ.context)) { restore_context (&econ); pop_context (&econ); current_object = 0; return 0; }
  current_object = master_ob;
  c = clone_object (name, 0);
  current_object = 0;
  pop_context (&econ);
  return c;
}

static int make_targets (const char *pre, object_t **blue) {
  for (int t = 0; t < S.ntgt; t++) {
    if (!S.tclone[t]) { tob[t] = blue[S.tprog[t]]; continue; }
    char nm[64]; snprintf (nm, sizeof nm, "/%s/%s", pre, S.p[S.tprog[t]].nm);
    tob[t] = do_clone (nm);
    if (!tob[t]) { vx_fail ("C07:harness:clone-failed", "%s: %s", nm, hx_last_error); return 0; }
    add_ref (tob[t], "c07");
    /* the clone's variables differ from the blueprint's: every level's variable gets a '#' */
    for (int x = 0; x < S.nprog; x++) {
      char fn[16], val[8];
      snprintf (fn, sizeof fn, "setv_%s", S.p[x].nm);
      snprintf (val, sizeof val, "v%c#", lower (S.p[x].nm[0]));
      copy_and_push_string (val);
      hx_apply (tob[t], fn, 1);      /* absent in programs that are not ancestors: harmless */
    }
  }
  return 1;
}

static void build_alphabet (void) {
  nL = 0;
  for (int t = 0; t < S.ntgt; t++) {
    int istop = S.tprog[t] == S.top;
    for (int org = 0; org <= O_FEX; org++)
      for (int nm = 0; nm < NNAME; nm++) {
        if ((org == O_COLPC || org == O_DRVLIT || org == O_TRAMP || org == O_FP || org == O_DEEP) && nm != N_F) continue;
        if (org == O_DEEP) continue;            /* appended below: explored in a phase of their own */
        if ((org == O_TRAMP || org == O_FP) && !istop) continue;
        const prog_t *T = &S.p[S.top];
        if (S.graph != 5) {
          if (org == O_TRAMP && !(T->has && !(T->fl & MF_HIDDEN))) continue;
          if (org == O_FP && !T->has) continue;
        }
        L[nL].tgt = t; L[nL].name = nm; L[nL].org = org; nL++;
      }
  }
  nD = 0;
  if (opt_deep && S.graph != 5)
    for (int t = 0; t < S.ntgt; t++) { L[nL + nD].tgt = t; L[nL + nD].name = N_F; L[nL + nD].org = O_DEEP; nD++; }
  nX = 0;
  if (opt_extra && S.graph != 5)
    for (int org = O_COPATH; org <= O_LOTSFULL; org++) { L[nL + nD + nX].tgt = 0; L[nL + nD + nX].name = N_F; L[nL + nD + nX].org = org; nX++; }
}

/* ------------------------------------------------------------------ oracles on cold results */
static int ran_f (const char *obs) {           /* did any body of f run? */
  const char *bar = strrchr (obs, '|');
  return bar && strstr (bar, ".f;") != 0;
}
static int is_ancestor (int x, int of) {
  if (x == of) return 1;
  for (int j = 0; j < S.p[of].npar; j++) if (is_ancestor (x, S.p[of].par[j])) return 1;
  return 0;
}
/* inherit branches a call BY NAME of a function defined only in program y takes from program t (last inherit first) */
static void byname_path (int t, int y, char *out) {
  out[0] = 0;
  while (t != y) {
    int j = S.p[t].npar - 1;
    while (j >= 0 && !is_ancestor (y, S.p[t].par[j])) j--;
    if (j < 0) return;
    size_t k = strlen (out); out[k] = (char) ('0' + j); out[k + 1] = 0;
    t = S.p[t].par[j];
  }
}
/* expected text returned by the definition of f in program def, run in target tgt and reached through inherit
   branches `path` from the target's program: the clone's variables were changed through setters called by name, so
   in a diamond only the copy of A's variables that a by-name call reaches carries the '#' */
static void tag_of (int def, int tgt, const char *path, char *b, size_t n) {
  const prog_t *R = &S.p[def];
  char sp[8];
  byname_path (S.tprog[tgt], def, sp);
  snprintf (b, n, "%s.f:v%c%s", R->nm, lower (R->nm[0]), S.tclone[tgt] && !strcmp (sp, path) ? "#" : "");
}
static const char *shape_class (void) {
  return S.graph <= 2 ? "chain" : S.graph == 3 ? "diamond" : S.graph == 4 ? "two-parents" : S.graph == 5 ? "compress" : "diamond-plus-one";
}
static int n_fail_obs;
static void set_fail (const char *key, const char *fmt, ...) {
  char msg[900], d[400]; va_list ap; va_start (ap, fmt); vsnprintf (msg, sizeof msg, fmt, ap); va_end (ap);
  describe_set (&S, salt, d, sizeof d);
  vx_fail (key, "%s :: %s", msg, d);
  if (n_fail_obs++ < 6) vx_obs ("!! %s: %s", key, msg);
}

static void check_cold_letter (int li, const char *obs, const char *when) {
  const letter_t *l = &L[li];
  const prog_t *X = &S.p[S.tprog[l->tgt]];
  char lt[80], key[200], want[200], tag[80];
  letter_text (li, lt, sizeof lt);
  char res[700]; snprintf (res, sizeof res, "%s", obs); char *bar = strrchr (res, '|'); if (bar) *bar = 0;
  if (l->name == N_F) {
    int R = X->rdef;
    int declared_restricted = R >= 0 && (kind_flags (S.p[R].kind) & MF_RESTRICTED);
    if (R >= 0) tag_of (R, l->tgt, X->rpath, tag, sizeof tag);
    switch (l->org) {
    case O_CO: case O_COLPC:
      /* (ii) a function declared static / private / protected is never run by another object's call_other */
      if (declared_restricted && ran_f (obs)) {
        int early = 0;
        for (int x = 0; x < S.nprog; x++) if (S.p[x].kind == K_PROTO_EARLY) early = 1;
        snprintf (key, sizeof key, "C07:visibility:call_other-ran-%s:%s", kname[S.p[R].kind], early ? "prototype-before-inherit" : shape_class ());
        set_fail (key, "%s %s ran %s.f which is declared %s: %s", when, lt, S.p[R].nm, kname[S.p[R].kind], obs);
      }
      /* ... nor one that this program inherited through a `static inherit` / `private inherit` clause */
      if (!declared_restricted && R >= 0 && (X->fl & MF_RESTRICTED) && ran_f (obs)) {
        int early = 0;
        for (int x = 0; x < S.nprog; x++) if (S.p[x].kind == K_PROTO_EARLY) early = 1;
        snprintf (key, sizeof key, "C07:visibility:call_other-ran-through-%s-inherit:%s", (X->fl & MF_STATIC) ? "static" : "private", early ? "prototype-before-inherit" : shape_class ());
        set_fail (key, "%s %s ran %s.f although %s has it only through a restricting inherit clause: %s", when, lt, S.p[R].nm, X->nm, obs);
      }
      /* (iii) nothing restricts it: the most derived definition must run */
      if (R >= 0 && !(X->fl & MF_RESTRICTED)) {
        snprintf (want, sizeof want, "\"%s\"", tag);
        if (strcmp (res, want)) { snprintf (key, sizeof key, "C07:resolve:%s:call_other", shape_class ()); set_fail (key, "%s %s = %s, reference resolver says %s", when, lt, obs, want); }
      }
      if (R < 0 && ran_f (obs)) { snprintf (key, sizeof key, "C07:resolve:%s:call_other-ran-undefined", shape_class ()); set_fail (key, "%s %s ran a body although no definition is reachable: %s", when, lt, obs); }
      break;
    case O_DRV: case O_DRVLIT: case O_COUT:
      if (R >= 0) snprintf (want, sizeof want, "\"%s\"", tag); else snprintf (want, sizeof want, "NOFUN");
      if (strcmp (res, want)) {
        if (R >= 0 && !ran_f (obs) && declared_restricted) snprintf (key, sizeof key, "C07:visibility:%s-refused-%s", oname[l->org], kname[S.p[R].kind]);
        else snprintf (key, sizeof key, "C07:resolve:%s:%s", shape_class (), oname[l->org]);
        set_fail (key, "%s %s = %s, reference resolver says %s", when, lt, obs, want);
      }
      break;
    case O_TRAMP: case O_FP:
      if (R >= 0) {
        snprintf (want, sizeof want, "\"%s>%s\"", l->org == O_TRAMP ? "t" : "fp", tag);
        if (strcmp (res, want)) { snprintf (key, sizeof key, "C07:resolve:%s:%s", shape_class (), oname[l->org]); set_fail (key, "%s %s = %s, reference resolver says %s", when, lt, obs, want); }
      } else if (strncmp (res, "ERR:", 4)) {
        snprintf (key, sizeof key, "C07:resolve:%s:%s-undefined-did-not-fail", shape_class (), oname[l->org]); set_fail (key, "%s %s = %s but no definition is reachable", when, lt, obs);
      }
      break;
    }
  } else if (l->name == N_G && l->org != O_FEX) {
    snprintf (want, sizeof want, "\"%s.g:v%c%s\"", X->nm, lower (X->nm[0]), S.tclone[l->tgt] ? "#" : "");
    if (strcmp (res, want)) { snprintf (key, sizeof key, "C07:resolve:%s:g-%s", shape_class (), oname[l->org]); set_fail (key, "%s %s = %s, expected %s", when, lt, obs, want); }
  } else if (l->name == N_Z && l->org != O_FEX) {
    if (strcmp (res, "NOFUN") && strcmp (res, "u0") && strcmp (res, "0")) { snprintf (key, sizeof key, "C07:resolve:%s:absent-name-%s", shape_class (), oname[l->org]); set_fail (key, "%s %s = %s for a name no program defines", when, lt, obs); }
  }
}

/* cold probes of the '::' forms, through every level of the target's ancestry */
static int nprobe;
static char *probe_res[64];
static void run_probes (int record, char **rec_into, const char *when) {
  int k = 0;
  for (int t = 0; t < S.ntgt; t++)
    for (int y = 0; y < S.nprog; y++) {
      if (!is_ancestor (y, S.tprog[t])) continue;
      const prog_t *Y = &S.p[y];
      for (int form = 0; form < 3; form++) {
        int def = form == 0 ? Y->up : (Y->npar == 2 ? Y->pdef[form - 1] : -1);
        if (def < 0) continue;
        char fn[24], want[200], tag[80], key[160];
        if (form == 0) snprintf (fn, sizeof fn, "up%s_f", Y->nm); else snprintf (fn, sizeof fn, "via%s_f", S.p[Y->par[form - 1]].nm);
        clear_apply_cache ();
        char *obs = do_call (tob[t], O_DRVLIT, fn, 0);
        char res[700]; snprintf (res, sizeof res, "%s", obs); char *bar = strrchr (res, '|'); if (bar) *bar = 0;
        char path[16]; int br = form == 0 ? Y->upbr : form - 1;
        byname_path (S.tprog[t], y, path);
        snprintf (path + strlen (path), sizeof path - strlen (path), "%d%s", br, S.p[Y->par[br]].rpath);
        tag_of (def, t, path, tag, sizeof tag);
        if (form == 0) snprintf (want, sizeof want, "\"%s.up>%s\"", Y->nm, tag); else snprintf (want, sizeof want, "\"%s.via%s>%s\"", Y->nm, S.p[Y->par[form - 1]].nm, tag);
        if (record) {
          if (strcmp (res, want)) { snprintf (key, sizeof key, "C07:resolve:%s:%s", shape_class (), form == 0 ? "super-call" : "named-super-call"); set_fail (key, "%s %s() on %s%s = %s, reference resolver says %s", when, fn, S.p[S.tprog[t]].nm, S.tclone[t] ? "#clone" : "", obs, want); }
          if (k < 64) rec_into[k] = strdup (obs);
        } else if (k < 64 && rec_into[k] && strcmp (rec_into[k], obs))
          set_fail (opt_bin ? "C07:binary:result-differs-after-load-binary" : "C07:compile:second-compile-differs", "%s %s() on %s = %s, first compile gave %s", when, fn, S.p[S.tprog[t]].nm, obs, rec_into[k]);
        k++;
        vx_count (2, 1);
      }
    }
  if (record) nprobe = k;
}

/* compression shapes: every inherited / overriding function, by name and through local calls compiled at both levels */
static void check_compress (const char *when) {
  hshape_t h = hshape_of (S.hshape);
  for (int t = 0; t < S.ntgt; t++) {
    int x = S.tprog[t];
    const char *suf = S.tclone[t] ? "#" : "";
    for (int fam = 0; fam < (h.two ? 2 : 1); fam++) {
      int M = fam ? h.M2 : h.M;
      int basep = h.two ? fam : 0;
      char fc = fam ? 'k' : 'h';
      if (!is_ancestor (basep, x)) continue;
      for (int i = 0; i < M; i++) {
        int ov = x == S.top && h_overridden (&h, fam, i);
        int def = ov ? S.top : basep;
        char want[120], fn[24], key[160];
        snprintf (want, sizeof want, "\"%s.%c%d:v%c%s\"", S.p[def].nm, fc, i, lower (S.p[def].nm[0]), suf);
        for (int how = 0; how < 5; how++) {
          char *obs; char res[400];
          clear_apply_cache ();
          if (how == 0) { snprintf (fn, sizeof fn, "%c%d", fc, i); obs = do_call (tob[t], O_DRVLIT, fn, 0); }
          else if (how == 1) { snprintf (fn, sizeof fn, "%c%d", fc, i); char *sh = make_shared_string (fn); obs = do_call (tob[t], O_CO, fn, sh); free_string (sh); }
          else if (how == 2) { snprintf (fn, sizeof fn, "loc%s%d", S.p[basep].nm, i / 50); push_number (i); reset_rlog (); svalue_t *r = hx_apply (tob[t], fn, 1); static char o2[400]; snprintf (o2, sizeof o2, "%s|", r ? hx_canon_s (r) : hx_last_error); obs = o2; }
          else if (how == 3) { if (x != S.top) continue; snprintf (fn, sizeof fn, "loc%s%c%d", S.p[S.top].nm, fc, i / 50); push_number (i); svalue_t *r = hx_apply (tob[t], fn, 1); static char o3[400]; snprintf (o3, sizeof o3, "%s|", r ? hx_canon_s (r) : hx_last_error); obs = o3; }
          else {
            if (x != S.top || !ov) continue;
            snprintf (fn, sizeof fn, "sup%c%d", fc, i / 50); push_number (i); svalue_t *r = hx_apply (tob[t], fn, 1); static char o4[400]; snprintf (o4, sizeof o4, "%s|", r ? hx_canon_s (r) : hx_last_error); obs = o4;
            snprintf (want, sizeof want, "\"%s.%c%d:v%c%s\"", S.p[basep].nm, fc, i, lower (S.p[basep].nm[0]), suf);
          }
          snprintf (res, sizeof res, "%s", obs); char *bar = strrchr (res, '|'); if (bar) *bar = 0;
          vx_count (2, 1);
          if (strcmp (res, want)) {
            static const char *hn[] = { "driver", "call_other", "local-from-base", "local-from-top", "super-call" };
            snprintf (key, sizeof key, "C07:resolve:compress:%s", hn[how]);
            set_fail (key, "%s %c%d via %s on %s%s = %s, expected %s", when, fc, i, hn[how], S.p[x].nm, suf, obs, want);
          }
        }
      }
    }
  }
}

/* ------------------------------------------------------------------ histories */
static int seq[8];
static long n_hist, n_calls;

static void history_diff (int n, int i, const char *obs) {
  const letter_t *l = &L[seq[i]];
  char key[200], h[500], lt[80];
  int k = 0;
  for (int j = 0; j < n; j++) { letter_text (seq[j], lt, sizeof lt); k += snprintf (h + k, sizeof h - k, "%s%s", j ? " ; " : "", lt); }
  const char *c = cold[seq[i]];
  int cold_ran = strrchr (c, '|')[1] != 0, hot_ran = strrchr (obs, '|')[1] != 0;
  /* class of the history: a refused call_other to the same function earlier in the history? */
  int refused_before = 0;
  for (int j = 0; j < i; j++) {
    const letter_t *p = &L[seq[j]];
    if ((p->org == O_CO || p->org == O_COLPC || p->org == O_DEEP) && p->name == l->name && tob[p->tgt]->prog == tob[l->tgt]->prog &&
        S.p[S.tprog[p->tgt]].rdef >= 0 && !ran_f (cold[seq[j]]))
      refused_before = 1;
  }
  if (cold_ran && !hot_ran && refused_before && l->name == N_F && l->org != O_CO && l->org != O_COLPC && l->org != O_FEX)
    snprintf (key, sizeof key, "C07:history:negative-cache-after-refused-call_other");
  else
    snprintf (key, sizeof key, "C07:history:%s:%s-became-%s", oname[l->org], cold_ran ? "ran" : !strncmp (c, "ERR", 3) ? "error" : "not-run",
              hot_ran ? (cold_ran ? "ran-differently" : "ran") : !strncmp (obs, "ERR", 3) ? "error" : "not-run");
  set_fail (key, "history [%s]: call %d gives %s, the same call on a cold cache gives %s", h, i + 1, obs, c);
}

/* the cache owns one reference per entry name: once it is cleared, every name must be back at its cold count */
static unsigned short ref0[64]; static int nref;
static void ref_snapshot (void) {
  clear_apply_cache ();
  nref = 0;
  for (int i = 0; i < nheld && i < NSALTN; i++) ref0[nref++] = MSTR_REF (held[i]);
}
static int cache_clean;                       /* the last thing done to the apply cache was clear_apply_cache() */
static int ref_check (int n) {
  int drift = 0;
  clear_apply_cache ();
  cache_clean = 1;
  for (int i = 0; i < nref; i++)
    if (MSTR_REF (held[i]) != ref0[i]) {
      char h[500], lt[80]; int k = 0, deep = 0;
      for (int j = 0; j < n; j++) { letter_text (seq[j], lt, sizeof lt); k += snprintf (h + k, sizeof h - k, "%s%s", j ? " ; " : "", lt); if (L[seq[j]].org == O_DEEP) deep = 1; }
      set_fail (deep ? "C07:history:name-refcount-drift-after-too-deep-recursion-in-apply" : "C07:history:name-refcount-drift",
                "history [%s] then clear_apply_cache(): shared string \"%s\" has %d references, %d before the history", h, held[i], MSTR_REF (held[i]), ref0[i]);
      ref0[i] = MSTR_REF (held[i]);
      drift = 1;
    }
  return drift;
}
static int want_canon;
static char canon_buf[200000];
static void unload_u (void *unused) {
  object_t *u = find_object_by_name (u_name);
  (void) unused;
  if (u) { destruct_object (u); remove_destructed_objects (); }
}
static void check_extra_letter (int li, const char *obs, const char *when);
static int run_history (int n) {
  int drift = 0;
  if (u_used) { hx_guard (unload_u, 0); u_used = 0; }      /* every history starts with the on-demand copy not loaded */
  if (!cache_clean) clear_apply_cache ();
  cache_clean = 0;
  for (int i = 0; i < n; i++) {
    char *obs = do_letter (seq[i]);
    n_calls++;
    if (strcmp (obs, cold[seq[i]])) {
      history_diff (n, i, obs);
      /* (ii) holds at every point of every history */
      const letter_t *l = &L[seq[i]];
      if ((l->org == O_CO || l->org == O_COLPC) && l->name == N_F) check_cold_letter (seq[i], obs, "after a history,");
      if (l->org >= O_COPATH) check_extra_letter (seq[i], obs, "after a history,");
    }
    if (L[seq[i]].org == O_COPATHU || L[seq[i]].org == O_COARRMIX) u_used = 1;
  }
  if (want_canon) vw_cache_canon (canon_buf, sizeof canon_buf);     /* before the reference check clears the cache */
  if (u_used) { hx_guard (unload_u, 0); u_used = 0; }      /* its program holds references to the names */
  if (nref) drift = ref_check (n);
  n_hist++;
  return drift;
}

/* histories that contain a call_other issued at the maximum call depth (its frame does not fit: "Too deep recursion").
   Explored last and abandoned at the first reference-count drift: from then on the string table is damaged. */
static void deep_phase (int maxlen) {
  for (int d = nL; d < nL + nD; d++) {
    clear_apply_cache ();
    cold[d] = strdup (do_letter (d));
    seq[0] = d;
    if (ref_check (1)) return;
  }
  for (int a = 0; a < nL; a++)
    for (int d = nL; d < nL + nD; d++) {
      seq[0] = a; seq[1] = d; if (run_history (2)) return;
      seq[0] = d; seq[1] = a; if (run_history (2)) return;
      if (maxlen >= 3)
        for (int b = 0; b < nL; b++) { seq[0] = a; seq[1] = d; seq[2] = b; if (run_history (3)) return; }
    }
}
/* call_other with the other forms of its first argument (path of a loaded object, path of an object that call_other has to
   load first, arrays) and a driver apply issued on a nearly full value stack.  x ranges over these letters:
   cold x; [x ; y] for all pairs; [a ; x] and [x ; a] for a = the calls of f on the most derived program (maxlen 2) or every call (maxlen >= 3) */
static void check_extra_letter (int li, const char *obs, const char *when) {
  const letter_t *l = &L[li];
  const prog_t *X = &S.p[S.top];
  char key[200], lt[80];
  if (l->org > O_COARRMIX) return;
  letter_text (li, lt, sizeof lt);
  if (X->rdef >= 0 && (X->fl & MF_RESTRICTED) && ran_f (obs)) {
    snprintf (key, sizeof key, "C07:visibility:%s-ran-restricted-function", oname[l->org]);
    set_fail (key, "%s %s ran %s.f, which another object's call_other must not reach: %s", when, lt, S.p[X->rdef].nm, obs);
  }
}
static void extra_phase (int maxlen) {
  int x0 = nL + nD;
  for (int x = x0; x < x0 + nX; x++) {
    if (u_used) { hx_guard (unload_u, 0); u_used = 0; }
    clear_apply_cache ();
    cold[x] = strdup (do_letter (x));
    if (L[x].org == O_COPATHU || L[x].org == O_COARRMIX) u_used = 1;
    check_extra_letter (x, cold[x], "cold");
    char lt[80]; letter_text (x, lt, sizeof lt);
    vx_obs ("cold %s = %s", lt, cold[x]);
    /* by path = by object */
    if (L[x].org == O_COPATH || L[x].org == O_COPATHU)
      for (int a = 0; a < nL; a++)
        if (L[a].org == O_CO && L[a].tgt == 0 && L[a].name == N_F && strcmp (cold[a], cold[x])) {
          char key[160]; snprintf (key, sizeof key, "C07:resolve:%s:%s", shape_class (), oname[L[x].org]);
          set_fail (key, "cold %s = %s, the same call with the object as target gives %s", lt, cold[x], cold[a]);
        }
    if (L[x].org == O_LOTS && strncmp (cold[x], "\"lots:", 6)) set_fail ("C07:resolve:lots", "cold %s = %s", lt, cold[x]);
    if (L[x].org == O_LOTSFULL && strncmp (cold[x], "ERR:", 4)) set_fail ("C07:harness:value-stack-not-full", "cold %s = %s: the callee's locals still fitted", lt, cold[x]);
  }
  for (int x = x0; x < x0 + nX; x++)
    for (int y = x0; y < x0 + nX; y++) { seq[0] = x; seq[1] = y; run_history (2); }
  if (maxlen < 2 || opt_extra < 2) return;      /* --extra=1: cold results and pairs only */
  for (int a = 0; a < nL; a++) {
    if (maxlen < 3 && !(L[a].name == N_F && S.tprog[L[a].tgt] == S.top)) continue;
    for (int x = x0; x < x0 + nX; x++) {
      seq[0] = a; seq[1] = x; run_history (2);
      seq[0] = x; seq[1] = a; run_history (2);
    }
  }
}
static void enum_histories (int d, int maxlen) {
  for (int li = 0; li < nL; li++) {
    seq[d] = li;
    run_history (d + 1);
    if (d + 1 < maxlen) enum_histories (d + 1, maxlen);
  }
}

/* pruned: every distinct apply-cache content reachable within `depth` calls, each extended by every letter */
typedef struct { uint64_t h; int len; int pre[8]; } cstate;
static uint64_t fnv64 (const char *s) { uint64_t h = 1469598103934665603ULL; while (*s) { h ^= (unsigned char) *s++; h *= 1099511628211ULL; } return h; }
static void explore_states (int depth) {
  static cstate st[20000]; int ns = 0, head = 0, cut = 0;
  clear_apply_cache ();
  vw_cache_canon (canon_buf, sizeof canon_buf);
  st[ns].h = fnv64 (canon_buf); st[ns].len = 0; ns++;
  want_canon = 1;
  while (head < ns) {
    cstate cur = st[head++];
    for (int li = 0; li < nL; li++) {
      memcpy (seq, cur.pre, sizeof (int) * (size_t) cur.len);
      seq[cur.len] = li;
      run_history (cur.len + 1);
      vx_count (6, 1);
      uint64_t h = fnv64 (canon_buf);
      int seen = 0;
      for (int k = 0; k < ns; k++) if (st[k].h == h) { seen = 1; break; }
      if (seen) continue;
      if (cur.len + 1 < depth && ns < 20000) { st[ns].h = h; st[ns].len = cur.len + 1; memcpy (st[ns].pre, seq, sizeof (int) * (size_t) (cur.len + 1)); ns++; }
      else cut = 1;             /* a new cache content beyond the depth bound: not extended */
    }
  }
  want_canon = 0;
  vx_count (5, ns);
  vx_count (9, !cut);
}

/* ------------------------------------------------------------------ salts: program-id parity and name-address order */
static const char *salt_names[] = { "f", "g", "zz_absent", "tramp_f", "fp_f", "upB_f", "upC_f", "upD_f", "upE_f", "viaB_f", "viaC_f", "viaP_f", "viaQ_f",
                                    "setv_A", "setv_B", "setv_C", "setv_D", "setv_E", "setv_P", "setv_Q", "co_f", "co_g", "co_z", "deep_f", "deep_g" };
typedef char salt_names_size_check[(sizeof salt_names / sizeof salt_names[0]) == NSALTN ? 1 : -1];
/* two references each: one unowned release by the driver (a finding) must not free a string the harness still reads */
static void hold (const char *s) { if (nheld < 1200) { held[nheld] = make_shared_string (s); ref_string (held[nheld]); nheld++; } }
static void apply_salt (int s) {
  if (s & 1) get_id_number ();
  for (int i = 0; i < NSALTN; i++) hold (salt_names[(s & 2) ? NSALTN - 1 - i : i]);     /* refs held until release_salt() */
  if (S.graph == 5) {
    hshape_t h = hshape_of (S.hshape);
    char fn[16];
    for (int i = 0; i < h.M; i++) { snprintf (fn, sizeof fn, "h%d", (s & 2) ? h.M - 1 - i : i); hold (fn); }
    for (int i = 0; i < h.M2; i++) { snprintf (fn, sizeof fn, "k%d", (s & 2) ? h.M2 - 1 - i : i); hold (fn); }
  }
  for (int i = 0; i < NNAME; i++) sname[i] = make_shared_string (name_txt[i]);
}
static void release_salt (void) {
  for (int i = 0; i < nheld; i++) { free_string (held[i]); free_string (held[i]); }
  nheld = 0;
  for (int i = 0; i < NNAME; i++) { free_string (sname[i]); sname[i] = 0; }
}

/* ------------------------------------------------------------------ one element */
static int n_loaded_binaries;
program_t *__real_load_binary (const char *name);
program_t *__wrap_load_binary (const char *name) {
  program_t *p = __real_load_binary (name);
  if (p) n_loaded_binaries++;
  return p;
}

static void destruct_all (object_t **blue) {
  for (int t = 0; t < S.ntgt; t++) if (S.tclone[t] && tob[t]) { destruct_object (tob[t]); free_object (tob[t], "c07"); tob[t] = 0; }
  for (int x = S.nprog - 1; x >= 0; x--) if (blue[x]) { destruct_object (blue[x]); blue[x] = 0; }
  remove_destructed_objects ();
}
static void guarded_destruct (void *p) { destruct_all (p); }

static void cleanup_files (const char *pre1, const char *pre2, int disk) {
  if (!disk) return;
  const char *pres[2] = { pre1, pre2 };
  for (int k = 0; k < 2; k++) {
    char path[PATH_MAX];
    for (int x = 0; x < S.nprog; x++) {
      snprintf (path, sizeof path, "%s/%s.c", pres[k], S.p[x].nm); unlink (path);
      snprintf (path, sizeof path, "bin/%s/%s.b", pres[k], S.p[x].nm); unlink (path);
    }
    rmdir (pres[k]);
    snprintf (path, sizeof path, "bin/%s", pres[k]); rmdir (path);
  }
}

/* stderr of this execution is vx's memfd: has the sanitizer written anything since `from`? */
static off_t stderr_pos (void) { return lseek (2, 0, SEEK_END); }
static int sanitizer_text_since (off_t from) {
  static char buf[65536];
  off_t end = lseek (2, 0, SEEK_END);
  if (end <= from) return 0;
  ssize_t n = pread (2, buf, sizeof buf - 1, from);
  if (n <= 0) return 0;
  buf[n] = 0;
  return strstr (buf, "AddressSanitizer") || strstr (buf, "runtime error") ? 1 : 0;
}

static char u_dir[40];
static void remove_u (void) {
  char path[100];
  if (!u_dir[0]) return;
  snprintf (path, sizeof path, "%s/U.c", u_dir); unlink (path);
  rmdir (u_dir);
  u_dir[0] = 0;
}
/* ------------------------------------------------------------------ function pointers evaluated from elsewhere
 * A pointer made at level X of an owner object (to a local function reading X's variable and making a local call, with /
 * without a bound argument; anonymous; (: f :)) is evaluated by the driver (call_function_pointer from C, as call_out does),
 * by code of every level Y of the owner itself (evaluate() and a map_array() callback), by code of every level of the most
 * derived blueprint (another object when the owner is the clone) and by the caller object.  Code of a second or later
 * inherit runs at non-zero function / variable offsets.  Whoever evaluates it, the pointer must give the owner's value. */
struct fparg { svalue_t *fp; char out[400]; };
static void fp_direct (void *p) {
  struct fparg *a = p;
  copy_and_push_string ("e");
  svalue_t *r = call_function_pointer (a->fp->u.fp, 1);
  snprintf (a->out, sizeof a->out, "%s", r ? hx_canon_s (r) : "NULL");
}
static int opt_fp;
static void run_fp_probes (const char *when) {
  static const char *kn[] = { "local-with-bound-arg", "local", "anonymous", "local-inherited-f" };
  int owners[2] = { 0, S.ntgt - 1 };
  for (int oi = 0; oi < 2; oi++) {
    int t1 = owners[oi];
    const char *suf = S.tclone[t1] ? "#" : "";
    const prog_t *P = &S.p[S.tprog[t1]];
    for (int x = 0; x < S.nprog; x++) {
      if (!is_ancestor (x, S.tprog[t1])) continue;
      const prog_t *X = &S.p[x];
      for (int k = 0; k < 4; k++) {
        char want[300], fn[16];
        if (k == 3 && !(x == S.top && S.tprog[t1] == S.top && X->has)) continue;
        if (k == 0 || k == 1) snprintf (want, sizeof want, "\"%s.lf:v%c%s%s/%s.g:v%c%s\"", X->nm, lower (X->nm[0]), suf, k ? "e" : "k", P->nm, lower (P->nm[0]), suf);
        else if (k == 2) snprintf (want, sizeof want, "\"ev%c%s\"", lower (X->nm[0]), suf);
        else if (X->rdef >= 0) {
          char tag[80]; tag_of (X->rdef, t1, X->rpath, tag, sizeof tag);
          snprintf (want, sizeof want, "\"%s%s\"", tag, S.p[X->rdef].kind == K_VARARGS ? "e" : "");
        } else snprintf (want, sizeof want, "ERR");
        snprintf (fn, sizeof fn, "mk%s", X->nm);
        push_number (k);
        svalue_t *r = hx_apply (tob[t1], fn, 1);
        if (!r || r->type != T_FUNCTION) { set_fail ("C07:harness:no-function-pointer", "%s(%d) on %s = %s", fn, k, P->nm, r ? hx_canon_s (r) : hx_last_error); continue; }
        svalue_t fpv; assign_svalue_no_free (&fpv, r);
        /* evaluators: -1 driver, -2 caller object, else (target t2, level y, how) */
        for (int t2i = 0; t2i < 2; t2i++) {
          int t2 = t2i ? 0 : t1;
          if (t2i && t1 == 0) break;
          for (int y = -2; y < S.nprog; y++) {
            if (y < 0 && t2i) continue;
            if (y >= 0 && !is_ancestor (y, S.tprog[t2])) continue;
            for (int how = 0; how < 2; how++) {
              char res[400], who[80], key[200];
              if (y < 0 && how) continue;
              if (t2i && how) continue;
              svalue_t *sp0 = sp;
              if (y == -1) {
                struct fparg a; a.fp = &fpv; a.out[0] = 0;
                if (hx_guard (fp_direct, &a)) snprintf (res, sizeof res, "ERR:%.150s", hx_last_error); else snprintf (res, sizeof res, "%s", a.out);
                snprintf (who, sizeof who, "the driver");
              } else {
                char efn[16];
                if (y == -2) snprintf (efn, sizeof efn, "ev"); else snprintf (efn, sizeof efn, "ev%s", S.p[y].nm);
                push_svalue (&fpv); push_number (how);
                svalue_t *rr = hx_apply (y == -2 ? caller_ob : tob[t2], efn, 2);
                if (rr) snprintf (res, sizeof res, "%s", hx_canon_s (rr)); else snprintf (res, sizeof res, "ERR:%.150s", hx_last_error);
                if (y == -2) snprintf (who, sizeof who, "code of another object");
                else snprintf (who, sizeof who, "%s in code of level %s of %s%s", how ? "a map_array callback" : "evaluate()", S.p[y].nm,
                               t2 == t1 ? "the owner" : "the blueprint", "");
              }
              if (sp > sp0) pop_n_elems ((int) (sp - sp0));
              for (char *q = res; *q; q++) if (*q == '\n') *q = ' ';
              vx_count (2, 1);
              if (!strcmp (want, "ERR") ? strncmp (res, "ERR", 3) != 0 : strcmp (res, want) != 0) {
                snprintf (key, sizeof key, "C07:funptr:%s:%s-pointer-evaluated-by-%s", shape_class (), kn[k],
                          y == -1 ? "driver" : y == -2 ? "other-object" : t2 != t1 ? "inherited-code-of-another-object" : y == S.tprog[t1] ? "own-code" : "inherited-code");
                set_fail (key, "%s pointer %s made at level %s of %s%s, evaluated by %s = %s, expected %s", when, kn[k], X->nm, P->nm, suf, who, res, want);
              }
            }
          }
        }
        free_svalue (&fpv, "c07");
      }
    }
  }
}

/* ------------------------------------------------------------------ graph 7: qualified super calls */
static void elem_qual (long idx) {
  static const char *probe_q[] = { "a", "ba", "ab", "a_b", "b" };
  char pre[32], src[6000], nm[80];
  object_t *par[3];
  int n;
  (void) idx;
  snprintf (pre, sizeof pre, "c07q");
  vx_count (0, 1);
  for (int x = 0; x < S.qn; x++) {
    const char *name = QN[S.qi[x]];
    n = snprintf (src, sizeof src, "// C07 qualified-call set, inherit %d: %s\n", x, name);
    for (int k = 0; k < x; k++) n += snprintf (src + n, sizeof src - n, "string pad%d_%d = \"p\";\n", x, k);
    n += snprintf (src + n, sizeof src - n, "string v%d = \"%s\";\n", x, name);
    if (S.qhas[x]) n += snprintf (src + n, sizeof src - n, "string f() { return \"%s.f:\" + v%d; }\n", name, x);
    n += snprintf (src + n, sizeof src - n, "string h%d() { return \"%s.h\"; }\n", x, name);
    snprintf (nm, sizeof nm, "/%s/%s.c", pre, name);
    par[x] = hx_load (nm, src);
    if (!par[x]) { set_fail ("C07:harness:qualified-parent", "cannot load %s: %s", nm, hx_last_error); return; }
  }
  /* reference: name::f() reaches the first inherit, in inherit order, whose file name is `name` after its last '/',
     and in which a definition of f is found; ::f() the first inherit in which one is found */
  int res_of[8]; int unq = -1;
  for (int x = 0; x < S.qn; x++) if (unq < 0 && S.qhas[x]) unq = x;
  n = snprintf (src, sizeof src, "// C07 qualified-call set, most derived program\n");
  for (int x = 0; x < S.qn; x++) n += snprintf (src + n, sizeof src - n, "inherit \"/%s/%s\";\n", pre, QN[S.qi[x]]);
  n += snprintf (src + n, sizeof src - n, "string vt = \"t\";\n");
  for (int q = 0; q < 5; q++) {
    res_of[q] = -1;
    for (int x = 0; x < S.qn; x++) if (res_of[q] < 0 && S.qhas[x] && !strcmp (q_base (QN[S.qi[x]]), probe_q[q])) res_of[q] = x;
    if (res_of[q] >= 0) n += snprintf (src + n, sizeof src - n, "string q_%s() { return \"%s::>\" + %s::f(); }\n", probe_q[q], probe_q[q], probe_q[q]);
  }
  if (unq >= 0) n += snprintf (src + n, sizeof src - n, "string up() { return \"::>\" + ::f(); }\n");
  snprintf (nm, sizeof nm, "/%s/T.c", pre);
  object_t *T = hx_load (nm, src);
  char *cl = hx_master_str ("take_clog");
  if (!T) { set_fail ("C07:compile:compiler-rejects-what-the-rules-accept", "most derived program of the qualified-call set rejected: %s [%s]", cl, hx_last_error); return; }
  snprintf (nm, sizeof nm, "/%s/T", pre);
  object_t *C = do_clone (nm);
  object_t *tg[2] = { T, C };
  for (int t = 0; t < 2; t++) {
    if (!tg[t]) continue;
    for (int q = -1; q < 5; q++) {
      int x = q < 0 ? unq : res_of[q];
      char fn[24], want[200];
      if (x < 0) continue;
      if (q < 0) { snprintf (fn, sizeof fn, "up"); snprintf (want, sizeof want, "\"::>%s.f:%s\"", QN[S.qi[x]], QN[S.qi[x]]); }
      else { snprintf (fn, sizeof fn, "q_%s", probe_q[q]); snprintf (want, sizeof want, "\"%s::>%s.f:%s\"", probe_q[q], QN[S.qi[x]], QN[S.qi[x]]); }
      svalue_t *r = hx_apply (tg[t], fn, 0);
      const char *res = r ? hx_canon_s (r) : hx_last_error;
      vx_count (2, 1);
      vx_obs ("%s() on %s = %s", fn, t ? "clone" : "blueprint", res);
      if (strcmp (res, want)) set_fail (q < 0 ? "C07:resolve:qualified-super-call:unqualified" : "C07:resolve:qualified-super-call:wrong-inherit",
                                        "%s() on the %s = %s, reference resolver says %s", fn, t ? "clone" : "blueprint", res, want);
    }
  }
  /* a qualifier that names none of the inherits (or only one without f) must be rejected */
  for (int q = 0; q < 5; q++) {
    if (res_of[q] >= 0) continue;
    n = snprintf (src, sizeof src, "// C07 qualified-call set: %s:: names no inherit with f\n", probe_q[q]);
    for (int x = 0; x < S.qn; x++) n += snprintf (src + n, sizeof src - n, "inherit \"/%s/%s\";\n", pre, QN[S.qi[x]]);
    n += snprintf (src + n, sizeof src - n, "string r() { return %s::f(); }\n", probe_q[q]);
    snprintf (nm, sizeof nm, "/%s/R%d.c", pre, q);
    object_t *R = hx_load (nm, src);
    hx_master_str ("take_clog");
    vx_count (1, R == 0);
    if (R) {
      svalue_t *r = hx_apply (R, "r", 0);
      set_fail ("C07:compile:compiler-accepts-what-the-rules-reject", "%s::f() compiled although no inherit is named %s (or none of them defines f); it returns %s", probe_q[q], probe_q[q],
                r ? hx_canon_s (r) : hx_last_error);
    }
  }
}

static void elem_body (long idx);
static void elem (long idx) { elem_body (idx); remove_u (); }
static void elem_body (long idx) {
  salt = (int) (idx % opt_salts);
  decode_set (idx / opt_salts, &S);
  if (S.graph == 5) decode_compress (&S);
  compute_model (&S);
  char d[400]; describe_set (&S, salt, d, sizeof d);
  vx_obs ("set %ld: %s", idx, d);
  apply_salt (salt);
  vx_count (7, sname[N_F] < sname[N_G]);
  if (S.graph == 7) { elem_qual (idx); return; }

  caller_ob = hx_load ("/caller.c", 0);
  if (!caller_ob) { vx_fail ("C07:harness:caller", "cannot load caller: %s", hx_last_error); return; }
  caller_ob->euid = caller_ob->uid;             /* it may load objects (call_other by path) */

  object_t *blue[MAXP] = { 0 }, *blue2[MAXP] = { 0 };
  const char *why = 0;
  int mrej = set_rejected (&S, &why);
  if (selftest == 3 && mrej < 0 && S.p[S.top].kind == K_NOMASK) { mrej = S.top; why = "selftest"; }
  /* big sources (compression shapes) and the binary round trip go through files: one directory per element */
  char pre1[32], pre2[32];
  int disk = opt_bin || S.graph == 5;
  if (disk) { snprintf (pre1, sizeof pre1, "c07s%ld", idx); snprintf (pre2, sizeof pre2, "c07t%ld", idx); mkdir (pre1, 0755); mkdir (pre2, 0755); }
  else { snprintf (pre1, sizeof pre1, "c07s"); snprintf (pre2, sizeof pre2, "c07t"); }
  cur_pre = pre1;
  off_t err0 = stderr_pos ();
  int rej = load_set (pre1, opt_bin, blue, disk);
  if (S.graph == 5 && sanitizer_text_since (err0)) {
    /* the compiler damaged memory while building this program (reported by vx from the sanitizer text): the program
       tables cannot be trusted, calling through them only multiplies the reports */
    vx_obs ("sanitizer report while compiling: element abandoned");
    vx_scan_now ();
    cleanup_files (pre1, pre2, disk);
    return;
  }
  char clog1[4000]; snprintf (clog1, sizeof clog1, "%s", clog_txt); strip_pre (clog1, pre1);
  vx_count (0, 1);
  if ((rej >= 0) != (mrej >= 0) || (rej >= 0 && rej != mrej)) {
    char key[200];
    snprintf (key, sizeof key, "C07:compile:%s", rej >= 0 ? "compiler-rejects-what-the-rules-accept" : "compiler-accepts-what-the-rules-reject");
    set_fail (key, "compiler %s program %s, reference model %s (%s): %s", rej >= 0 ? "rejected" : "accepted all; model rejects", rej >= 0 ? S.p[rej].nm : S.p[mrej].nm,
              mrej >= 0 ? "rejects" : "accepts", why ? why : "-", clog1);
  }
  if (rej >= 0) {
    /* rejected sets must be rejected identically on every compile */
    vx_count (1, 1);
    vx_obs ("rejected at %s: %s", S.p[rej].nm, clog1);
    cur_pre = pre2;
    int rej2 = load_set (pre2, opt_bin, blue2, disk);
    char clog2[4000]; snprintf (clog2, sizeof clog2, "%s", clog_txt); strip_pre (clog2, pre2);
    cleanup_files (pre1, pre2, disk);
    if (rej2 != rej || strcmp (clog1, clog2)) set_fail ("C07:compile:rejection-not-repeatable", "first compile: program %d [%s]; second compile: program %d [%s]", rej, clog1, rej2, clog2);
    return;
  }
  if (!make_targets (pre1, blue)) return;
  /* calibrate the recursion count for the call_other-at-max-call-depth letters on g (public, same frame structure as f):
     n0 = least n for which deep_g(n) overflows (in the simul_efun call inside g); n0 + 1 overflows in apply_low's own push */
  /* call_other-at-max-call-depth: apply(caller, "deep_f") takes one frame and the local recursion n more, so with
     n = MaxCallDepth - 1 the frame apply_low() pushes for the callee is the one that does not fit (measured: n - 1 still
     runs the callee and overflows in its simul_efun call) */
  ndeep = CONFIG_INT (__MAX_CALL_DEPTH__) - 1;
  /* the copy of the most derived program that call_other("<path>", ...) loads on demand: same text, own file */
  u_dir[0] = 0; u_used = 0;
  snprintf (top_path, sizeof top_path, "/%s/%s", pre1, S.p[S.top].nm);
  if (opt_extra && S.graph != 5) {
    static char usrc[20000];
    snprintf (u_dir, sizeof u_dir, "c07u%ld", idx);
    snprintf (u_name, sizeof u_name, "%s/U", u_dir);
    snprintf (u_path, sizeof u_path, "/%s", u_name);
    mkdir (u_dir, 0755);
    int n = gen_source (&S, S.top, pre1, 0, usrc, sizeof usrc);
    char path[100]; snprintf (path, sizeof path, "%s/U.c", u_dir);
    FILE *f = fopen (path, "w");
    if (!f) { vx_fail ("C07:harness:cannot-write-source", "%s: %s", path, strerror (errno)); return; }
    fwrite (usrc, 1, (size_t) n, f); fclose (f);
  }
  build_alphabet ();

  /* cold results */
  for (int li = 0; li < nL; li++) {
    clear_apply_cache ();
    char *obs = do_letter (li);
    if (selftest == 1 && L[li].org == O_COUT && L[li].name == N_F && L[li].tgt == 0) obs = "\"selftest\"|";
    cold[li] = strdup (obs);
    if (S.graph != 5) check_cold_letter (li, cold[li], "cold");
    char lt[80]; letter_text (li, lt, sizeof lt);
    vx_obs ("cold %s = %s", lt, cold[li]);
  }
  if (S.graph == 5) check_compress ("first compile");
  else { run_probes (1, probe_res, "cold"); if (opt_fp) run_fp_probes ("cold"); }

  if (opt_bin) {
    /* save-binary / load-binary round trip: destruct everything, load again (now from the .b files) */
    char *cold1[MAXL]; memcpy (cold1, cold, sizeof cold1);
    if (hx_guard (guarded_destruct, blue)) { vx_fail ("C07:harness:destruct", "%s", hx_last_error); return; }
    clear_apply_cache ();
    /* the binaries are normally read by another process: give every function name a new address, allocated in the
       opposite order, so that the tables saved in compile-time address order have to be re-sorted */
    int f_below_g = sname[N_F] < sname[N_G];
    destruct_object (caller_ob); remove_destructed_objects ();
    release_salt ();
    for (int i = 0; i < NSALTN; i++) { char pad[40]; snprintf (pad, sizeof pad, "c07-pad-%d", i); make_shared_string (pad); }
    apply_salt ((salt ^ 2) & 2);
    vx_count (10, f_below_g != (sname[N_F] < sname[N_G]));
    caller_ob = hx_load ("/caller.c", 0);
    if (!caller_ob) { vx_fail ("C07:harness:caller", "cannot reload caller: %s", hx_last_error); return; }
    caller_ob->euid = caller_ob->uid;
    n_loaded_binaries = 0;
    int r2 = load_set (pre1, 1, blue, 2);
    if (r2 >= 0) { set_fail ("C07:binary:reload-failed", "program %s failed to load again: %s", S.p[r2].nm, clog_txt); return; }
    if (n_loaded_binaries != S.nprog) { set_fail ("C07:harness:binary-not-used", "%d of %d programs came from a saved binary", n_loaded_binaries, S.nprog); return; }
    vx_count (8, n_loaded_binaries);
    if (!make_targets (pre1, blue)) return;
    for (int li = 0; li < nL; li++) {
      clear_apply_cache ();
      char *obs = do_letter (li);
      if (strcmp (obs, cold1[li])) {
        char lt[80]; letter_text (li, lt, sizeof lt);
        set_fail ("C07:binary:result-differs-after-load-binary", "%s = %s after the save/load round trip, %s when compiled", lt, obs, cold1[li]);
      }
      cold[li] = strdup (obs);
    }
    if (S.graph == 5) check_compress ("after load-binary");
    else { run_probes (0, probe_res, "after load-binary"); if (opt_fp) run_fp_probes ("after load-binary"); }
  } else {
    /* a second compile of the same text (other path prefix, other program ids) behaves identically */
    object_t *save_tob[4]; memcpy (save_tob, tob, sizeof tob);
    cur_pre = pre2;
    int rej2 = load_set (pre2, opt_bin, blue2, disk);
    if (rej2 >= 0) set_fail ("C07:compile:rejection-not-repeatable", "first compile accepted, second rejected program %s: %s", S.p[rej2].nm, clog_txt);
    else if (make_targets (pre2, blue2)) {
      for (int li = 0; li < nL; li++) {
        clear_apply_cache ();
        char *obs = do_letter (li);
        if (strcmp (obs, cold[li])) {
          char lt[80]; letter_text (li, lt, sizeof lt);
          set_fail ("C07:compile:second-compile-differs", "%s = %s on the second compile, %s on the first", lt, obs, cold[li]);
        }
      }
      if (S.graph != 5) run_probes (0, probe_res, "second compile");
    }
    memcpy (tob, save_tob, sizeof tob);
    cur_pre = pre1;
  }

  cleanup_files (pre1, pre2, disk);

  /* histories */
  n_hist = n_calls = 0;
  ref_snapshot ();
  cache_clean = 0;
  if (selftest == 2) { free (cold[0]); cold[0] = strdup ("\"selftest-model\"|"); }
  if (opt_len > 0) enum_histories (0, opt_len);
  if (opt_prune > 8) opt_prune = 8;
  if (opt_prune > 0) explore_states (opt_prune);
  if (nX && opt_len > 0) extra_phase (opt_len);
  if (u_used) { hx_guard (unload_u, 0); u_used = 0; }
  if (nD && opt_len > 0) deep_phase (opt_len);
  vx_count (3, n_hist);
  vx_count (4, n_calls);
}

static void describe (long idx, char *b, size_t n) {
  pset s; decode_set (idx / opt_salts, &s);
  if (s.graph == 5) decode_compress (&s);
  describe_set (&s, (int) (idx % opt_salts), b, n);
}

static char mudroot[PATH_MAX];
static pid_t mud_owner;
static void cleanup_mudroot (void) {
  if (mudroot[0] && getpid () == mud_owner) {
    char cmd[PATH_MAX + 16];
    snprintf (cmd, sizeof cmd, "rm -rf '%s'", mudroot);
    if (system (cmd)) {}
  }
}
static void copy_file (const char *from, const char *to) {
  FILE *a = fopen (from, "r"), *b = fopen (to, "w");
  if (!a || !b) { perror (from); exit (2); }
  char buf[8192]; size_t k;
  while ((k = fread (buf, 1, sizeof buf, a)) > 0) fwrite (buf, 1, k, b);
  fclose (a); fclose (b);
}

int main (int argc, char **argv) {
  vx_init_args (argc, argv);
  opt_len = (int) vx_opt_long ("len", 2);
  opt_prune = (int) vx_opt_long ("prune-depth", 0);
  opt_salts = (int) vx_opt_long ("salts", 1);
  opt_bin = (int) vx_opt_long ("bin", 0);
  opt_deep = (int) vx_opt_long ("deep", 1);
  opt_extra = (int) vx_opt_long ("extra", 2);
  opt_fp = (int) vx_opt_long ("fp", 1);
  selftest = (int) vx_opt_long ("selftest", 0);
  /* scratch copy of the C07 mudlib (binaries and generated sources are written below it); on tmpfs when
     there is one: the round trip creates and deletes ~10 files per element */
  {
    struct stat st;
    const char *base = (stat ("/dev/shm", &st) == 0 && S_ISDIR (st.st_mode) && access ("/dev/shm", W_OK) == 0) ? "/dev/shm" : "/tmp";
    snprintf (mudroot, sizeof mudroot, "%s/calls-c07-p%d", base, (int) getpid ());
    if (mkdir (mudroot, 0755) && errno != EEXIST) { perror (mudroot); return 2; }
    mud_owner = getpid ();
    atexit (cleanup_mudroot);
  }
  static const char *files[] = { "master.c", "simul_efun.c", "caller.c" };
  for (int i = 0; i < 3; i++) {
    char a[PATH_MAX], b[PATH_MAX];
    snprintf (a, sizeof a, "%s/mudlib/c07/%s", hx_verif_dir (), files[i]);
    snprintf (b, sizeof b, "%s/%s", mudroot, files[i]);
    copy_file (a, b);
  }
  hx_boot (mudroot, "SaveBinaryDir /bin\n", 0);
  vx_count_name (0, "program_sets_compiled");
  vx_count_name (1, "sets_rejected_by_compiler");
  vx_count_name (2, "super_call_and_table_probes");
  vx_count_name (3, "histories");
  vx_count_name (4, "calls_in_histories");
  vx_count_name (5, "distinct_cache_states");
  vx_count_name (6, "state_transitions");
  vx_count_name (7, "elements_with_f_below_g_in_address_order");
  vx_count_name (8, "programs_loaded_from_binary");
  vx_count_name (9, "elements_whose_cache_state_space_closed");
  vx_count_name (10, "binary_reloads_with_name_address_order_flipped");
  if (opt_salts < 1) opt_salts = 1;
  if (opt_salts > 4) opt_salts = 4;
  /* --no-compress=1: leave out the 14 compression shapes (the last sets of the enumeration) */
  vx_set_enum ((N_SETS - (vx_opt_long ("no-compress", 0) ? N_G5 : 0)) * opt_salts, elem, describe);
  if (vx_opt ("source", 0)) {   /* --source=<index>: print the generated program texts */
    long idx = vx_opt_long ("source", 0);
    decode_set (idx / opt_salts, &S); if (S.graph == 5) decode_compress (&S);
    compute_model (&S);
    static char src[200000];
    for (int x = 0; x < S.nprog; x++) { gen_source (&S, x, "c07s", 0, src, sizeof src); printf ("%s\n", src); }
    return 0;
  }
  return vx_run (argc, argv, 0);
}
