/* C05 — after any LPC error the machine state is what it was before the failed call.
 * E2 + H1: for every nesting shape P (compositions of frame kinds), for every instruction boundary k = 1..N(P),
 * P is re-run with a catchable error (or a thrown value) raised at dispatch k, once uncaught to a driver-style entry
 * and once under a top-level catch; plus genuine error sites as the leaf of every shape.  Oracles: register snapshot
 * at the driver entry and at every catch point, the value every catch yields, and a fixed probe evaluation. */
#include "h_vmerr.h"
#include <sys/mman.h>
#include <sys/wait.h>
#include <sys/syscall.h>
#include <fcntl.h>

#define MAXTEXT 24000
typedef struct { int depth; int k[VM_MAXDEPTH]; } shape_t;
typedef struct { int n[2]; int ok[2]; int hits[2]; int probe_ok[2]; unsigned changed[2]; char err[2][120]; } meas_t;

static shape_t *shapes; static long nshapes;
static meas_t *meas;                 /* shared */
static long *cum;                    /* cum[2*s+v] = first element index of (s,v) */
static long total;
static int part_sites, inj_mode = VM_INJ_ERROR, maxdepth = 2;
static char ref_probe[16384];
static int kindset[64], nkindset;
static int leafset[128], nleafset;

/* ------------------------------------------------------------------ one run of a shape */
typedef struct { long n; int ok, hits, probe_ok; unsigned changed; char err[120]; } result_t;
#ifndef HNAME
#define HNAME "h_c05"
#endif
#ifdef VM_C06
/* C06 builds this file with its own per-element body (h_c06.c) and enumerates k = 0 (fault-free) as well */
#define VM_K0 1
static void c06_run_shape (const shape_t *sh, int variant, int leaf, long k, int mode, int measuring, result_t *res);
static int c06_share_main (int argc, char **argv);
#else
#define VM_K0 0
#endif

static void first_diff (const char *a, const char *b, char *tag, size_t tl, char *msg, size_t ml) {
  /* transcripts are lists of notes; find the first differing position and the note it is in */
  size_t i = 0;
  while (a[i] && a[i] == b[i]) i++;
  size_t s = i;
  while (s > 0 && a[s - 1] != ',' && a[s - 1] != '\n' && a[s - 1] != '{') s--;
  size_t j = 0;
  const char *q = a + s;
  if (*q == '"') q++;
  while (q[j] && q[j] != ':' && q[j] != '"' && q[j] != '=' && q[j] != ',' && j + 1 < tl) { tag[j] = q[j]; j++; }
  tag[j] = 0;
  if (!tag[0]) snprintf (tag, tl, "end");
  size_t from = i > 60 ? i - 60 : 0;
  snprintf (msg, ml, "expected ...%.160s... got ...%.160s...", a + from, b + from);
}

static int with_giver;
static void run_shape (const shape_t *sh, int variant, int leaf, long k, int mode, int measuring, unsigned ignore, result_t *res) {
  static char text[MAXTEXT];
  char name[300];
  vm_snap s0, s1;
  memset (res, 0, sizeof *res);
#ifdef VM_C06
  c06_run_shape (sh, variant, leaf, k, mode, measuring, res);
  return;
#endif
  vm_shape_name (sh->k, sh->depth, name, sizeof name);
  snprintf (vm_ctx_desc, sizeof vm_ctx_desc, "shape %s leaf=%s %s k=%ld %s", name[0] ? name : "(leaf only)", vm_leaf_names[leaf],
            variant ? "under-catch" : "uncaught", k, mode == VM_INJ_THROW ? "throw" : "error");
  vm_shape_text (sh->k, sh->depth, leaf, text, sizeof text);
  object_t *m = hx_load ("/c05/m.c", text);
  if (!m) {
    snprintf (res->err, sizeof res->err, "shape does not compile: %.80s", hx_last_error);
    if (!measuring) vm_fail ("C05:harness:shape-does-not-compile", "%s: %s", vm_ctx_desc, hx_last_error);
    return;
  }
  add_ref (m, "harness");
  safe_apply_master_ob ("clear_errors", 0);
  if (!measuring) vx_obs ("%s", vm_ctx_desc);
  if (with_giver) {
    /* pass --giver=1: the evaluation is entered while a living P is this_player(); the fault hook (and the leaf
     * destruct-entry-command-giver-then-error) destructs P right before the error */
    vm_giver = hx_load ("/c05/pl", 0);
    if (!vm_giver) { if (!measuring) vm_fail ("C05:harness:giver", "cannot load /c05/pl: %s", hx_last_error); return; }
    add_ref (vm_giver, "harness");
    command_giver = vm_giver;
  }
  vm_snap_take (&s0);
  vm_ignore_fields = measuring ? ~0u : ignore; vm_changed_fields = 0;
  vm_hook_arm (k, mode, vw_ec_depth () + 1);
  svalue_t *r = hx_apply (m, variant ? "run_c" : "run_u", 0);
  vm_hook_disarm ();
  vm_snap_take (&s1);
  if (with_giver) { command_giver = 0; }
  res->n = vm_insn;
  char rtext[400];
  snprintf (rtext, sizeof rtext, "%s", r ? hx_canon_s (r) : "ERROR");
  char etext[300];
  snprintf (etext, sizeof etext, "%s", hx_last_error);
  if (!measuring) vx_obs ("  -> %.300s%s%.200s  insns=%ld catches=%d/%d ctx=%d", rtext, r ? "" : " ", r ? "" : etext, vm_insn, vm_catch_err, vm_catch_seen, vm_fault_ctx);

  if (vm_selftest == 1 && vm_fired) s1.sp++;                        /* self-test: corrupt the observation */
  if (vm_selftest == 11 && vm_fired) s1.sortd++;
  char scope[80];
  snprintf (scope, sizeof scope, "driver-entry:%s", vm_ctx_name ());
  vm_snap_diff (&s0, &s1, 0, 1, scope, vm_ctx_desc);
  res->changed = vm_changed_fields;
  if (measuring && (vm_changed_fields & ~VM_F_NOBJ)) snprintf (res->err, sizeof res->err, "fault-free run leaves registers changed (mask %x)", vm_changed_fields);

  /* leaf reached? */
  if (!(m->flags & O_DESTRUCTED)) {
    svalue_t *h = hx_apply (m, "query_hits", 0);
    res->hits = h && h->type == T_NUMBER ? (int) h->u.number : -1;
  } else res->hits = -2;
  res->ok = r != 0;

  if (!measuring) {
    /* catch yields the raised message: caught errors logged by the master (LOG_CATCHES) <-> catches that completed with a string */
    long ne = vm_master_int ("query_nerrors", 0);
    int ci = 0;
    for (long i = 0; i < ne; i++) {
      push_number (i);
      if (vm_master_int ("query_error_caught", 1) != 1) continue;
      push_number (i);
      char want[300], *t = vm_master_text ("query_error_text", 1);
      /* limit errors are refused by catch by design (C04): do_catch re-raises "*Can't catch ..." instead */
      if (!strncmp (t, "*Too long evaluation", 20) || !strncmp (t, "***Too deep recursion", 21) || !strncmp (t, "***Stack overflow", 17) || !strncmp (t, "*Can't catch", 12)) continue;
      svalue_t sv; sv.type = T_STRING; sv.subtype = STRING_CONSTANT; sv.u.string = t;
      snprintf (want, sizeof want, "%s", hx_canon_s (&sv));
      while (ci < vm_ncval && vm_cval[ci][0] != '"') ci++;          /* thrown non-string values are not logged */
      if (ci >= vm_ncval) {
        if (vm_ncval < VM_MAXCVAL) vm_fail ("C05:catch:raised-error-not-yielded", "error %.120s was raised inside a catch but no catch yielded it [%s]", want, vm_ctx_desc);
        break;
      }
      if (strncmp (want, vm_cval[ci], sizeof vm_cval[0] - 2))
        vm_fail ("C05:catch:wrong-value", "catch yielded %.150s, the error raised was %.150s [%s]", vm_cval[ci], want, vm_ctx_desc);
      ci++;
    }
    if (k > 0) {
      if (!vm_fired) vm_fail ("C05:harness:fault-not-reached", "dispatch %ld was never reached (%ld executed) [%s]", k, vm_insn, vm_ctx_desc);
      else {
        vx_count (0, 1);
        switch (vm_fault_ctx) {
        case VM_CTX_DRIVER:
          vx_count (2, 1);
          if (r) vm_fail ("C05:driver:error-not-delivered", "the uncaught fault did not end the evaluation: returned %.200s [%s]", rtext, vm_ctx_desc);
          else if (strcmp (etext, vm_expected_driver_text ()))
            vm_fail ("C05:driver:wrong-error-text", "driver received \"%.150s\", expected \"%.80s\" [%s]", etext, vm_expected_driver_text (), vm_ctx_desc);
          break;
        case VM_CTX_CATCH:
          vx_count (1, 1);
          if (!vm_expect_done) vm_fail ("C05:catch:did-not-resume", "control never came back to the catch that had to receive the fault (result %.150s %.100s) [%s]", rtext, etext, vm_ctx_desc);
          else if (!r) vm_fail ("C05:catch:later-error", "after the fault was caught the evaluation ended with \"%.150s\" [%s]", etext, vm_ctx_desc);
          break;
        default:
          vx_count (3, 1);
          break;
        }
      }
    } else if (vm_catch_err || !r) vx_count (0, 1);
    vx_count (4, vm_catch_seen);
  }

  /* probe evaluation */
  char pt[16384];
  vm_clear_hooks ();
  vm_probe (pt, sizeof pt);
  if (vm_selftest == 3 && (vm_fired || measuring == 0)) pt[5] ^= 1;   /* self-test: corrupt the probe transcript */
  res->probe_ok = !strcmp (pt, ref_probe);
  if (!res->probe_ok) {
    char tag[60], msg[400], key[120];
    first_diff (ref_probe, pt, tag, sizeof tag, msg, sizeof msg);
    if (measuring) snprintf (res->err, sizeof res->err, "probe differs after fault-free run at '%s'", tag);
    else {
      snprintf (key, sizeof key, "C05:probe:%s", tag);
      vm_fail (key, "probe transcript differs from a fresh driver: %s [%s]", msg, vm_ctx_desc);
      vx_obs ("!! probe: %s", pt);
    }
  }
}

/* ------------------------------------------------------------------ enumeration */
static int single, single_v, single_leaf; static long single_k;
static void decode (long idx, long *s, int *v, long *k, int *leaf) {
  if (single) { *s = 0; *v = single_v; *k = single_k; *leaf = single_leaf; return; }
  if (part_sites) {
    long per = 2L * nleafset;
    *s = idx / per; *v = (int) ((idx % per) / nleafset); *leaf = leafset[idx % nleafset]; *k = 0;
    return;
  }
  long lo = 0, hi = 2 * nshapes;          /* largest j with cum[j] <= idx */
  while (hi - lo > 1) { long mid = (lo + hi) / 2; if (cum[mid] <= idx) lo = mid; else hi = mid; }
  *s = lo / 2; *v = (int) (lo % 2); *k = idx - cum[lo] + 1 - VM_K0; *leaf = 0;
}

static void elem1 (long idx);
static void elem (long idx) {
  long s, k; int v, leaf; char name[300];
  decode (idx, &s, &v, &k, &leaf);
  vm_shape_name (shapes[s].k, shapes[s].depth, name, sizeof name);
  snprintf (vm_ctx_desc, sizeof vm_ctx_desc, "shape %s leaf=%s %s k=%ld", name, vm_leaf_names[leaf], v ? "under-catch" : "uncaught", k);
  vm_run_isolated (elem1, idx);
}
static void elem1 (long idx) {
  long s, k; int v, leaf; result_t r;
  decode (idx, &s, &v, &k, &leaf);
  run_shape (&shapes[s], v, leaf, k, inj_mode, 0, meas[s].changed[v] & VM_F_NOBJ, &r);
}

static void describe (long idx, char *buf, size_t len) {
  long s, k; int v, leaf; char name[300]; static char text[MAXTEXT];
  decode (idx, &s, &v, &k, &leaf);
  vm_shape_name (shapes[s].k, shapes[s].depth, name, sizeof name);
  vm_shape_text (shapes[s].k, shapes[s].depth, leaf, text, sizeof text);
  snprintf (buf, len, "elem=%s/%c/%ld/%d/%s\nshape=%s leaf=%s variant=%s k=%ld of %d mode=%s entry=%s\n%s", name[0] ? name : "-", v ? 'c' : 'u', k, leaf,
            inj_mode == VM_INJ_THROW ? "throw" : inj_mode == VM_INJ_ERROR ? "error" : "none",
            name, vm_leaf_names[leaf], v ? "under-catch" : "uncaught", k,
            meas[s].n[v], inj_mode == VM_INJ_THROW ? "throw" : "error", v ? "run_c" : "run_u", text);
}

static int ref_broken;
static void elem_ref_broken (long idx) {
  (void) idx;
  vx_fail ("C05:probe:does-not-finish-in-a-fresh-driver", "the probe evaluation (nested catch, load, destruct, verb, call_out) crashed or hung in a fresh driver (status 0x%x)", ref_broken);
}

/* ------------------------------------------------------------------ set-up */
static void build_shapes (void) {
  long cap = 1; long p = 1;
  for (int d = 1; d <= maxdepth; d++) { p *= nkindset; cap += p; }
  shapes = calloc ((size_t) cap, sizeof *shapes);
  for (int d = 0; d <= maxdepth; d++) {
    long cnt = 1; for (int i = 0; i < d; i++) cnt *= nkindset;
    for (long c = 0; c < cnt; c++) {
      shape_t sh; long x = c; sh.depth = d; memset (sh.k, 0, sizeof sh.k);
      for (int i = d - 1; i >= 0; i--) { sh.k[i] = kindset[x % nkindset]; x /= nkindset; }
      if (!vm_shape_possible (sh.k, d)) continue;
      shapes[nshapes++] = sh;
    }
  }
}

static int in_child (void (*fn) (void *), void *arg) {
  fflush (0);
  pid_t pid = fork ();
  if (pid == 0) { alarm (30); fn (arg); fflush (0); syscall (SYS_exit_group, 0); }
  int st = 0; waitpid (pid, &st, 0);
  return st;
}

static int ref_pipe[2];
static void ref_child (void *a) { (void) a; char pt[16384]; vm_clear_hooks (); vm_probe (pt, sizeof pt); if (write (ref_pipe[1], pt, strlen (pt) + 1) < 0) {} }

typedef struct { long s; int v; } marg;
static void meas_child (void *a) {
  marg *m = a; result_t r;
  run_shape (&shapes[m->s], m->v, 0, 0, VM_INJ_NONE, 1, 0, &r);
  meas[m->s].changed[m->v] = r.changed;
  meas[m->s].n[m->v] = (int) r.n; meas[m->s].ok[m->v] = r.ok; meas[m->s].hits[m->v] = r.hits; meas[m->s].probe_ok[m->v] = r.probe_ok;
  snprintf (meas[m->s].err[m->v], sizeof meas[m->s].err[m->v], "%s", r.err);
}
static void meas_worker (int w, int W) {
  for (long s = w; s < nshapes; s += W) for (int v = 0; v < 2; v++) {
    marg a = { s, v };
    meas[s].ok[v] = -1;
    int st = in_child (meas_child, &a);
    if (meas[s].ok[v] == -1 || st) {
      /* the fault-free run itself crashed or hung: keep the shape with one element, which will reproduce and report it */
      meas[s].n[v] = 1; meas[s].ok[v] = 1; meas[s].hits[v] = 1; meas[s].probe_ok[v] = 1; meas[s].changed[v] = 0; meas[s].err[v][0] = 0;
      fprintf (stderr, HNAME ": fault-free run of shape #%ld variant %d ended abnormally (status 0x%x)\n", s, v, st);
    }
  }
}

static void parse_set (const char *spec, int *out, int *n, int limit, int (*lookup) (const char *)) {
  *n = 0;
  if (!strcmp (spec, "all")) { for (int i = 0; i < limit; i++) out[(*n)++] = i; return; }
  char *d = strdup (spec);
  for (char *t = strtok (d, ","); t; t = strtok (0, ",")) {
    int i = lookup ? lookup (t) : atoi (t);
    if (i < 0 || i >= limit) { fprintf (stderr, "unknown item '%s'\n", t); exit (2); }
    out[(*n)++] = i;
  }
  free (d);
}


/* ------------------------------------------------------------------ part "api": the driver's own entry points, called from C as
 * backend.c / comm.c / call_out.c do, on live and on already destructed targets, with the function present, missing, or raising at
 * every instruction boundary k; each followed by the register snapshot comparison and the probe evaluation */
enum { A_SAFE_APPLY, A_APPLY, A_SAFE_CFP, A_CFP, A_APPLY_MASTER, A_SAFE_APPLY_MASTER, NAPI };
static const char *api_name[] = { "safe_apply", "apply", "safe_call_function_pointer", "call_function_pointer", "apply_master_ob", "safe_apply_master_ob" };
static const char *tgt_name[] = { "live-target", "destructed-target" };
static const char *fnk_name[] = { "function-exists", "function-missing", "functional-funptr" };
typedef struct { int api, tgt, fnk; int n; int ok; } apisc_t;
static apisc_t *apisc; static long napisc; static long *apicum;
static object_t *api_ob; static funptr_t *api_fp; static svalue_t *api_ret;

static vm_snap api_in0, api_in1; static int api_returned;
static void api_do (void *p) {
  apisc_t *sc = p;
  /* the state is compared right where the driver's own callers continue, inside the enclosing error context (backend() never pops
   * its context, so a context the callee forgot to pop stays linked there; the harness's own pop_context() would hide it) */
  vm_snap_take (&api_in0);
  array_t *a = allocate_array (2);
  const char *fn = sc->fnk == 1 ? "nosuch_function" : (sc->api >= A_APPLY_MASTER ? "api_ok" : "ok");
  push_refed_array (a);
  switch (sc->api) {
  case A_SAFE_APPLY: api_ret = safe_apply (fn, api_ob, 1, ORIGIN_DRIVER); break;
  case A_APPLY: api_ret = apply (fn, api_ob, 1, ORIGIN_DRIVER); break;
  case A_SAFE_CFP: api_ret = safe_call_function_pointer (api_fp, 1); break;
  case A_CFP: api_ret = call_function_pointer (api_fp, 1); break;
  case A_APPLY_MASTER: api_ret = apply_master_ob (fn, 1); break;
  default: api_ret = safe_apply_master_ob (fn, 1); break;
  }
  vm_snap_take (&api_in1);
  api_returned = 1;
}
static void api_destruct (void *o) { destruct_object ((object_t *) o); }

static void api_run (apisc_t *sc, long k, int measuring) {
  vm_snap s0, s1; char scope[120];
  snprintf (vm_ctx_desc, sizeof vm_ctx_desc, "api %s %s %s k=%ld", api_name[sc->api], tgt_name[sc->tgt], fnk_name[sc->fnk], k);
  if (!measuring) vx_obs ("%s", vm_ctx_desc);
  api_ob = hx_load ("/c05/api", 0);
  if (!api_ob) { if (!measuring) vm_fail ("C05:harness:api-object", "cannot load /c05/api: %s", hx_last_error); return; }
  add_ref (api_ob, "harness");
  api_fp = 0;
  if (sc->api == A_SAFE_CFP || sc->api == A_CFP) {
    svalue_t *r = hx_apply (api_ob, sc->fnk == 2 ? "getfn" : "getfp", 0);
    if (!r || r->type != T_FUNCTION) { if (!measuring) vm_fail ("C05:harness:api-funptr", "no function pointer: %s", hx_last_error); return; }
    api_fp = r->u.fp; api_fp->hdr.ref++;
  }
  if (sc->tgt == 1) hx_guard (api_destruct, api_ob);
  safe_apply_master_ob ("clear_errors", 0);
  vm_snap_take (&s0);
  vm_ignore_fields = measuring ? ~0u : 0; vm_changed_fields = 0;
  vm_hook_arm (k, k ? VM_INJ_ERROR : VM_INJ_NONE, vw_ec_depth () + 1);
  api_ret = 0; api_returned = 0;
  int err = hx_guard (api_do, sc);
  vm_hook_disarm ();
  vm_snap_take (&s1);
  sc->n = (int) vm_insn; sc->ok = 1;
  if (measuring) return;
  vx_obs ("  -> %s%.150s insns=%ld", err ? "ERROR " : (api_ret ? "value" : "0"), err ? hx_last_error : "", vm_insn);
  if (k && !vm_fired) vm_fail ("C05:harness:fault-not-reached", "dispatch %ld was never reached [%s]", k, vm_ctx_desc);
  if (k && vm_fired) vx_count (0, 1);
  if (!k) vx_count (0, 1);
  snprintf (scope, sizeof scope, "api:%s:%s", api_name[sc->api], tgt_name[sc->tgt]);
  if (vm_selftest == 4) s1.ecd++;
  vm_snap_diff (&s0, &s1, 0, 1, scope, vm_ctx_desc);
  if (api_returned) {
    char scope2[140]; snprintf (scope2, sizeof scope2, "api:%s:%s:at-return", api_name[sc->api], tgt_name[sc->tgt]);
    vm_snap_diff (&api_in0, &api_in1, 0, 1, scope2, vm_ctx_desc);
  }
  int safe = sc->api == A_SAFE_APPLY || sc->api == A_SAFE_CFP || sc->api == A_SAFE_APPLY_MASTER;
  if (safe && err) {
    char key[160]; snprintf (key, sizeof key, "C05:api:%s:%s:error-escaped-the-safe-call", api_name[sc->api], tgt_name[sc->tgt]);
    vm_fail (key, "an error (%.100s) left %s() [%s]", hx_last_error, api_name[sc->api], vm_ctx_desc);
  }
  if (safe && k && vm_fired && api_ret) {
    char key[160]; snprintf (key, sizeof key, "C05:api:%s:%s:value-returned-after-error", api_name[sc->api], tgt_name[sc->tgt]);
    vm_fail (key, "%s() returned a value although the function raised an error [%s]", api_name[sc->api], vm_ctx_desc);
  }
  char pt[16384];
  vm_clear_hooks ();
  vm_probe (pt, sizeof pt);
  if (strcmp (pt, ref_probe)) {
    char tag[60], msg[400], key[120];
    first_diff (ref_probe, pt, tag, sizeof tag, msg, sizeof msg);
    snprintf (key, sizeof key, "C05:probe:%s", tag);
    vm_fail (key, "probe transcript differs from a fresh driver: %s [%s]", msg, vm_ctx_desc);
  }
}

static void api_decode (long idx, long *s, long *k) {
  long lo = 0, hi = napisc;
  while (hi - lo > 1) { long mid = (lo + hi) / 2; if (apicum[mid] <= idx) lo = mid; else hi = mid; }
  *s = lo; *k = idx - apicum[lo];
}
static void api_elem1 (long idx) { long s, k; api_decode (idx, &s, &k); api_run (&apisc[s], k, 0); }
static void api_elem (long idx) {
  long s, k; api_decode (idx, &s, &k);
  snprintf (vm_ctx_desc, sizeof vm_ctx_desc, "api %s %s %s k=%ld", api_name[apisc[s].api], tgt_name[apisc[s].tgt], fnk_name[apisc[s].fnk], k);
  vm_run_isolated (api_elem1, idx);
}
static void api_describe (long idx, char *buf, size_t len) {
  long s, k; api_decode (idx, &s, &k);
  snprintf (buf, len, "api=%d/%d/%d/%ld\n%s(...) on a %s, %s, fault at dispatch %ld of %d", apisc[s].api, apisc[s].tgt, apisc[s].fnk, k,
            api_name[apisc[s].api], tgt_name[apisc[s].tgt], fnk_name[apisc[s].fnk], k, apisc[s].n);
}
static void api_meas_child (void *p) { api_run ((apisc_t *) p, 0, 1); }

static int api_main (int argc, char **argv) {
  const char *one = vx_opt ("api", 0);
  int oa = -1, ot = -1, of = -1; long ok = -1;
  if (one && sscanf (one, "%d/%d/%d/%ld", &oa, &ot, &of, &ok) != 4) { fprintf (stderr, "bad --api\n"); return 2; }
  apisc = mmap (0, sizeof (apisc_t) * 64, PROT_READ | PROT_WRITE, MAP_SHARED | MAP_ANONYMOUS, -1, 0);
  for (int a = 0; a < NAPI; a++)
    for (int t = 0; t < 2; t++)
      for (int f = 0; f < 3; f++) {
        int fp = a == A_SAFE_CFP || a == A_CFP, ms = a >= A_APPLY_MASTER;
        if (ms && t) continue;                 /* the master is never a destructed target */
        if (fp && f == 1) continue;            /* a function pointer cannot name a missing function */
        if (!fp && f == 2) continue;
        if (one && !(a == oa && t == ot && f == of)) continue;
        apisc[napisc].api = a; apisc[napisc].tgt = t; apisc[napisc].fnk = f; napisc++;
      }
  for (long i = 0; i < napisc; i++) { apisc[i].ok = 0; in_child (api_meas_child, &apisc[i]); if (!apisc[i].ok) apisc[i].n = 0; }
  apicum = calloc ((size_t) napisc + 1, sizeof *apicum);
  long tot = 0;
  for (long i = 0; i < napisc; i++) { apicum[i] = tot; tot += apisc[i].n + 1; }
  apicum[napisc] = tot;
  if (one) { apicum[0] = -ok; tot = 1; }     /* element 0 = that k */
  fprintf (stderr, HNAME ": part=api scenarios=%ld elements=%ld\n", napisc, tot);
  vx_count_name (0, "fault_raised"); vx_count_name (15, "failure_records_suppressed_as_duplicates");
  vm_shared_init ();
  vx_set_enum (tot, api_elem, api_describe);
  int rc = vx_run (argc, argv, 0);
  if (vx_opt ("out", 0)) { char kp[PATH_MAX]; snprintf (kp, sizeof kp, "%s.keys", vx_opt ("out", 0)); vm_write_key_totals (kp); }
  return rc;
}

/* ------------------------------------------------------------------ part "vital": destruct(master() / simul_efun) while the reload fails
 * {syntax error in the file, error in create(), valid_object() refuses, loader without euid} x {caught, uncaught}; every element works
 * in a private copy of the mudlib so that master.c / simul_efun.c can be broken and repaired between two steps */
static const char *vfail_name[] = { "syntax-error", "error-in-create", "valid_object-refuses", "loader-without-euid" };
static const char *vwhich_name[] = { "master", "simul_efun" };
#define VITAL_EXPECT "({\"/master\",1,\"/simul_efun\",3,0,\"/master\",1,1})"

static int copy_file (const char *from, const char *to, const char *append) {
  FILE *a = fopen (from, "r"), *b = fopen (to, "w"); char buf[4096]; size_t n;
  if (!a || !b) { if (a) fclose (a); if (b) fclose (b); return -1; }
  while ((n = fread (buf, 1, sizeof buf, a)) > 0) fwrite (buf, 1, n, b);
  if (append) fputs (append, b);
  fclose (a); fclose (b);
  return 0;
}

static void vital_elem1 (long idx) {
  int which = (int) (idx / 8), fail = (int) ((idx / 2) % 4), caught = (int) (idx % 2);
  char dir[PATH_MAX], cmd[PATH_MAX * 2 + 64], orig[PATH_MAX], file[64];
  vm_snap s0, s1;
  snprintf (vm_ctx_desc, sizeof vm_ctx_desc, "vital destruct(%s) reload-fails-by=%s %s", vwhich_name[which], vfail_name[fail], caught ? "under-catch" : "uncaught");
  vx_obs ("%s", vm_ctx_desc);
  snprintf (dir, sizeof dir, "%s/v%d", hx_scratch_dir (), (int) getpid ());
  snprintf (cmd, sizeof cmd, "rm -rf '%s' && cp -r '%s/mudlib/vm' '%s'", dir, hx_verif_dir (), dir);
  if (system (cmd) || chdir (dir)) { vm_fail ("C05:harness:vital-scratch", "cannot make the private mudlib copy %s", dir); return; }
  snprintf (file, sizeof file, "%s.c", vwhich_name[which]);
  snprintf (orig, sizeof orig, "%s/mudlib/vm/%s", hx_verif_dir (), file);
  object_t *d = hx_load ("/c05/vital", 0);
  if (!d) { vm_fail ("C05:harness:vital-object", "cannot load /c05/vital: %s", hx_last_error); return; }
  add_ref (d, "harness");
  /* break the reload */
  if (fail == 0) { FILE *f = fopen (file, "w"); if (f) { fputs ("int broken( { return 1 }\n", f); fclose (f); } }
  else if (fail == 1) copy_file (orig, file, "\nvoid create() { error(\"create of the new copy fails\\n\"); }\n");
  else if (fail == 2) { copy_and_push_string ("valid_object"); push_number (0); safe_apply_master_ob ("set_policy", 2); }
  safe_apply_master_ob ("clear_errors", 0);
  object_t *m0 = master_ob, *se0 = simul_efun_ob;
  vm_snap_take (&s0);
  vm_ignore_fields = 0; vm_changed_fields = 0;
  vm_hook_arm (0, VM_INJ_NONE, vw_ec_depth () + 1);
  vm_noinj_name = "reload-error";
  push_number (which); push_number (fail == 3);
  svalue_t *sp0 = sp - 2;
  svalue_t *r = hx_apply (d, caught ? "kill_c" : "kill_u", 2);
  if (!r && sp > sp0) pop_n_elems ((size_t) (sp - sp0));     /* hx_apply saves its context after the arguments were pushed */
  vm_hook_disarm ();
  vm_snap_take (&s1);
  vx_obs ("  -> %.300s %.200s", r ? hx_canon_s (r) : "ERROR", r ? "" : hx_last_error);
  vx_count (0, 1);
  char scope[120]; snprintf (scope, sizeof scope, "vital-reload:%s:%s", vwhich_name[which], caught ? "caught" : "uncaught");
  if (vm_selftest == 5) s1.sp++;
  vm_snap_diff (&s0, &s1, 0, 1, scope, vm_ctx_desc);
  if (master_ob != m0 || simul_efun_ob != se0)
    vx_obs ("  (the vital object was replaced: master %s, simul_efun %s)", master_ob != m0 ? "new" : "same", simul_efun_ob != se0 ? "new" : "same");
  /* repair, then: names intact, master replaceable, probe */
  copy_file (orig, file, 0);
  if (fail == 2 && master_ob) { copy_and_push_string ("valid_object"); push_number (1); safe_apply_master_ob ("set_policy", 2); }
  hx_apply (d, "repair", 0);
  r = hx_apply (d, "check", 0);
  char got[600]; snprintf (got, sizeof got, "%.590s", r ? hx_canon_s (r) : hx_last_error);
  vx_obs ("  check -> %s", got);
  if (vm_selftest == 6) got[3] ^= 1;
  if (strcmp (got, VITAL_EXPECT)) {
    char key[160]; snprintf (key, sizeof key, "C05:vital-object-not-as-before:%s:%s", vwhich_name[which], vfail_name[fail]);
    vm_fail (key, "after the failed reload and the repair of the file: %.400s, expected %s [%s]", got, VITAL_EXPECT, vm_ctx_desc);
  }
  char pt[16384];
  vm_clear_hooks ();
  vm_probe (pt, sizeof pt);
  if (strcmp (pt, ref_probe)) {
    char tag[60], msg[400], key[120];
    first_diff (ref_probe, pt, tag, sizeof tag, msg, sizeof msg);
    snprintf (key, sizeof key, "C05:probe:%s", tag);
    vm_fail (key, "probe transcript differs from a fresh driver: %s [%s]", msg, vm_ctx_desc);
  }
  if (chdir ("/") == 0) { snprintf (cmd, sizeof cmd, "rm -rf '%s'", dir); if (system (cmd)) {} }
}
static void vital_elem (long idx) {
  snprintf (vm_ctx_desc, sizeof vm_ctx_desc, "vital destruct(%s) reload-fails-by=%s %s", vwhich_name[idx / 8], vfail_name[(idx / 2) % 4], idx % 2 ? "under-catch" : "uncaught");
  vm_run_isolated (vital_elem1, idx);
}
static void vital_describe (long idx, char *buf, size_t len) {
  snprintf (buf, len, "vital=%ld\ndestruct(%s) while its reload fails by %s, %s", idx, vwhich_name[idx / 8], vfail_name[(idx / 2) % 4], idx % 2 ? "under catch" : "uncaught");
}
static long vital_one = -1;
static void vital_elem_one (long idx) { (void) idx; vital_elem (vital_one); }
static int vital_main (int argc, char **argv) {
  vx_count_name (0, "fault_raised"); vx_count_name (15, "failure_records_suppressed_as_duplicates");
  vm_shared_init ();
  vital_one = vx_opt_long ("vital", -1);
  if (vital_one >= 0) vx_set_enum (1, vital_elem_one, vital_describe); else vx_set_enum (16, vital_elem, vital_describe);
  fprintf (stderr, HNAME ": part=vital elements=%d\n", vital_one >= 0 ? 1 : 16);
  int rc = vx_run (argc, argv, 0);
  if (vx_opt ("out", 0)) { char kp[PATH_MAX]; snprintf (kp, sizeof kp, "%s.keys", vx_opt ("out", 0)); vm_write_key_totals (kp); }
  return rc;
}

/* ------------------------------------------------------------------ part "tick": a backend tick (the real call_heart_beat(): heart-beat
 * round, reset()/clean_up() sweep, call_out sweep) in which two objects' heart beats run and THEN a callback of a third object raises:
 * call_out by name / by funptr, reset(), clean_up(); genuine error() and a fault at every dispatch k of the callback; the tick is entered
 * as backend() does.  As-before comparison: registers, both heart beats still on and beating in the next tick, probe. */
extern void vw_call_heart_beat (void);
static const char *tick_kind_name[] = { "call_out-by-name", "call_out-by-funptr", "reset", "clean_up" };
typedef struct { int kind; int n; } ticksc_t;
static ticksc_t *ticksc; static long *tickcum; static long nticksc;
static object_t *tick_h1, *tick_h2, *tick_t;

static int tick_once (void) {
  error_context_t econ; int err = 0;
  hx_clock += 10; current_time = hx_clock;
  heart_beat_flag = 1;
  save_context (&econ);
  if (setjmp (econ.context)) { restore_context (&econ); err = 1; }
  else { eval_cost = CONFIG_INT (__MAX_EVAL_COST__); vw_call_heart_beat (); }
  pop_context (&econ);
  return err;
}
static long tick_int (object_t *o, const char *fn) { svalue_t *r = hx_apply (o, fn, 0); return r && r->type == T_NUMBER ? (long) r->u.number : -99; }

static void tick_run (ticksc_t *sc, long k, int genuine, int measuring) {
  vm_snap s0, s1;
  snprintf (vm_ctx_desc, sizeof vm_ctx_desc, "tick callback=%s %s k=%ld", tick_kind_name[sc->kind], genuine ? "error()" : "fault", k);
  if (!measuring) vx_obs ("%s", vm_ctx_desc);
  tick_h1 = hx_load ("/c05/hb", 0);
  tick_t = hx_load ("/c05/tk", 0);
  if (!tick_h1 || !tick_t) { if (!measuring) vm_fail ("C05:harness:tick-objects", "cannot load: %s", hx_last_error); return; }
  /* two clones: cloning switches the heart beat of the blueprint itself off */
  tick_h1 = tick_h2 = 0;
  { error_context_t e; save_context (&e); if (!setjmp (e.context)) { current_object = master_ob; tick_h1 = clone_object ("/c05/hb", 0); tick_h2 = clone_object ("/c05/hb", 0); current_object = 0; } else restore_context (&e); pop_context (&e); }
  if (!tick_h1 || !tick_h2) { if (!measuring) vm_fail ("C05:harness:tick-objects", "cannot clone /c05/hb"); return; }
  add_ref (tick_h1, "harness"); add_ref (tick_h2, "harness"); add_ref (tick_t, "harness");
  push_number (sc->kind); push_number (genuine);
  svalue_t *sp0 = sp - 2;
  if (!hx_apply (tick_t, "arm", 2) && sp > sp0) pop_n_elems ((size_t) (sp - sp0));
  /* reset() and clean_up() are only due in an object that has been used and is old enough */
  if (sc->kind < 2) tick_t->flags &= ~(O_WILL_RESET | O_WILL_CLEAN_UP); else if (sc->kind == 2) tick_t->flags &= ~O_WILL_CLEAN_UP; else tick_t->flags &= ~O_WILL_RESET;
  safe_apply_master_ob ("clear_errors", 0);
  long b1 = tick_int (tick_h1, "query_beats"), b2 = tick_int (tick_h2, "query_beats");
  vm_snap_take (&s0);
  vm_ignore_fields = measuring ? ~0u : 0; vm_changed_fields = 0;
  vm_fault_object = tick_t;
  vm_hook_arm (k, k ? VM_INJ_ERROR : VM_INJ_NONE, vw_ec_depth () + 1);
  vm_noinj_name = "genuine-error";
  int err = tick_once ();
  vm_hook_disarm ();
  vm_fault_object = 0;
  vm_snap_take (&s1);
  sc->n = (int) vm_insn_in_object ();
  if (measuring) return;
  long fired = tick_int (tick_t, "query_fired");
  vx_obs ("  -> tick %s, callback ran %ld time(s), %ld instructions in it", err ? "abandoned by an error" : "completed", fired, vm_insn_in_object ());
  if (k && !vm_fired) vm_fail ("C05:harness:fault-not-reached", "dispatch %ld of the callback was never reached [%s]", k, vm_ctx_desc);
  if (vm_insn_in_object () < 1) vm_fail ("C05:harness:tick-callback-did-not-run", "the %s callback did not run in the tick [%s]", tick_kind_name[sc->kind], vm_ctx_desc);
  vx_count (0, 1);
  char scope[100]; snprintf (scope, sizeof scope, "tick:%s", tick_kind_name[sc->kind]);
  if (vm_selftest == 7) s1.chb = tick_h1;
  vm_snap_diff (&s0, &s1, 0, 1, scope, vm_ctx_desc);
  /* the other objects' heart beats: ran in this tick, still on, run again in the next tick */
  long c1 = tick_int (tick_h1, "query_beats"), c2 = tick_int (tick_h2, "query_beats");
  long on1 = tick_int (tick_h1, "query_hb"), on2 = tick_int (tick_h2, "query_hb");
  tick_once ();
  long d1 = tick_int (tick_h1, "query_beats"), d2 = tick_int (tick_h2, "query_beats");
  if (vm_selftest == 8) on2 = 0;
  if (c1 != b1 + 1 || c2 != b2 + 1 || on1 < 1 || on2 < 1 || d1 != c1 + 1 || d2 != c2 + 1) {
    char key[160]; snprintf (key, sizeof key, "C05:heart-beat-of-another-object-changed:tick:%s", tick_kind_name[sc->kind]);
    vm_fail (key, "beats %ld,%ld -> %ld,%ld -> %ld,%ld; query_heart_beat %ld,%ld (an error in a %s callback must leave other objects' heart beats alone) [%s]",
             b1, b2, c1, c2, d1, d2, on1, on2, tick_kind_name[sc->kind], vm_ctx_desc);
  }
  /* stop the heart beats, then the probe */
  tick_h1->flags |= 0; { error_context_t e; save_context (&e); if (!setjmp (e.context)) { set_heart_beat (tick_h1, 0); set_heart_beat (tick_h2, 0); } else restore_context (&e); pop_context (&e); }
  char pt[16384];
  vm_clear_hooks ();
  vm_probe (pt, sizeof pt);
  if (strcmp (pt, ref_probe)) {
    char tag[60], msg[400], key[120];
    first_diff (ref_probe, pt, tag, sizeof tag, msg, sizeof msg);
    snprintf (key, sizeof key, "C05:probe:%s", tag);
    vm_fail (key, "probe transcript differs from a fresh driver: %s [%s]", msg, vm_ctx_desc);
  }
}
/* element = (kind, k): k = 0 is the genuine error() in the callback, k >= 1 the fault at dispatch k of the callback */
static void tick_decode (long idx, long *s, long *k) {
  long lo = 0, hi = nticksc;
  while (hi - lo > 1) { long mid = (lo + hi) / 2; if (tickcum[mid] <= idx) lo = mid; else hi = mid; }
  *s = lo; *k = idx - tickcum[lo];
}
static void tick_elem1 (long idx) { long s, k; tick_decode (idx, &s, &k); tick_run (&ticksc[s], k, k == 0, 0); }
static void tick_elem (long idx) {
  long s, k; tick_decode (idx, &s, &k);
  snprintf (vm_ctx_desc, sizeof vm_ctx_desc, "tick callback=%s k=%ld", tick_kind_name[ticksc[s].kind], k);
  vm_run_isolated (tick_elem1, idx);
}
static void tick_describe (long idx, char *buf, size_t len) {
  long s, k; tick_decode (idx, &s, &k);
  snprintf (buf, len, "tick=%d/%ld\ntick with two heart-beat objects, then a %s callback of a third object %s", ticksc[s].kind, k, tick_kind_name[ticksc[s].kind],
            k ? "gets a fault at that dispatch" : "calls error()");
}
static void tick_meas_child (void *p) { tick_run ((ticksc_t *) p, 0, 0, 1); }
static int tick_main (int argc, char **argv) {
  const char *one = vx_opt ("tick", 0); int ok = -1; long okk = -1;
  if (one && sscanf (one, "%d/%ld", &ok, &okk) != 2) { fprintf (stderr, "bad --tick\n"); return 2; }
  ticksc = mmap (0, sizeof (ticksc_t) * 8, PROT_READ | PROT_WRITE, MAP_SHARED | MAP_ANONYMOUS, -1, 0);
  for (int kd = 0; kd < 4; kd++) { if (one && kd != ok) continue; ticksc[nticksc].kind = kd; ticksc[nticksc].n = 0; in_child (tick_meas_child, &ticksc[nticksc]); nticksc++; }
  tickcum = calloc ((size_t) nticksc + 1, sizeof *tickcum);
  long tot = 0;
  for (long i = 0; i < nticksc; i++) { tickcum[i] = tot; tot += ticksc[i].n + 1; }
  tickcum[nticksc] = tot;
  if (one) { tickcum[0] = -okk; tot = 1; }
  fprintf (stderr, HNAME ": part=tick kinds=%ld elements=%ld\n", nticksc, tot);
  vx_count_name (0, "fault_raised"); vx_count_name (15, "failure_records_suppressed_as_duplicates");
  vm_shared_init ();
  vx_set_enum (tot, tick_elem, tick_describe);
  int rc = vx_run (argc, argv, 0);
  if (vx_opt ("out", 0)) { char kp[PATH_MAX]; snprintf (kp, sizeof kp, "%s.keys", vx_opt ("out", 0)); vm_write_key_totals (kp); }
  return rc;
}

/* ------------------------------------------------------------------ part "stackedge": "Stack overflow" raised by a checked single push
 * (push_number, push_real, push_object, push_undefined, copy_and_push_string, share_and_push_string, push_constant_string) exactly when
 * sp == end_of_stack - 1, at every alignment of the pushing expression relative to the end of the stack (StackSize 150, 110 padding
 * arguments, the recursion depth n = 0..35 above them shifts the alignment slot by slot from "fits" to "overflows in the padding").  Before that, the slot AT end_of_stack
 * (reachable by the unchecked one-value pushes, e.g. F_LOCAL) is made to hold a stale reference-counted value: a local string that is
 * freed by then, or an array still held by a global.  After the overflow: registers as before, reference count of the held array
 * exact, audit evaluation over the held values, probe. */
#define SE_NMIN 0
#define SE_NMAX 35
#define SE_PAD 125
static const char *se_site_name[] = { "C:push_number", "C:push_object", "C:push_real", "C:push_undefined", "C:copy_and_push_string", "C:share_and_push_string",
                                      "C:push_constant_string", "lpc:small-literal-in-a-push-group", "lpc:negative-byte-literal", "lpc:const0", "lpc:const1", "lpc:number-literal", "lpc:float-literal", "lpc:this_object()",
                                      "lpc:efun-with-constant-argument" };
static const char *se_site_expr[] = { 0, 0, 0, 0, 0, 0, 0, "7", "-7", "0", "1", "100000", "1.5", "this_object()", "ctime(0)" };
#define SE_NSITES 15
#define SE_NCSITES 7
static const char *se_ctx_name[] = { "uncaught", "inside-catch" };
static const char *se_stale_name[] = { "freed-local-string", "array-held-by-a-global" };
typedef struct { int site, ctx, stale, n; } se_el;
static se_el *se_els; static long se_nels;
static int se_one_set; static se_el se_one;

static int se_guarded_apply (object_t *o, const char *fn) {
  /* as backend()/call_out do: 1 = returned, 0 = error reached the driver */
  error_context_t e; int ok = 1;
  save_context (&e);
  if (setjmp (e.context)) { restore_context (&e); ok = 0; }
  else { eval_cost = CONFIG_INT (__MAX_EVAL_COST__); svalue_t *r = apply (fn, o, 0, ORIGIN_DRIVER); (void) r; }
  pop_context (&e);
  return ok;
}
static void se_run (long idx) {
  se_el *el = se_one_set ? &se_one : &se_els[idx];
  vm_snap s0, s1;
  snprintf (vm_ctx_desc, sizeof vm_ctx_desc, "stackedge site=%s %s stale=%s n=%d", se_site_name[el->site], se_ctx_name[el->ctx], se_stale_name[el->stale], el->n);
  vx_obs ("%s", vm_ctx_desc);
  /* the object: the alignment is varied by the recursion depth (one slot per level), which keeps the text short */
  size_t cap = 1 << 13, len = 0; char *t = malloc (cap);
  len += (size_t) snprintf (t + len, cap - len, "mixed *keep = ({ \"k\", \"l\" });\nint fill(mixed *a...) { return sizeof(a); }\nint pad(mixed *a...) { return sizeof(a); }\n"
                            "int audit() { return sizeof(keep) + strlen(keep[0]) + strlen(keep[1]); }\n");
  len += (size_t) snprintf (t + len, cap - len, el->stale ? "void leaf(int d) { mixed s = keep; fill(" : "void leaf(int d) { string s = \"dangling\" + d; fill(");
  for (int i = 0; i < SE_PAD; i++) len += (size_t) snprintf (t + len, cap - len, i % 16 == 15 ? "7,\n" : "7,");
  len += (size_t) snprintf (t + len, cap - len, "-7, s); }\nvoid st(int d) { if (d > 0) { st(d - 1); return; } leaf(d); }\n");
  for (int n = SE_NMIN; n <= SE_NMAX; n++) len += (size_t) snprintf (t + len, cap - len, "void stale_%d() { st(%d); }\n", n, n);
  len += (size_t) snprintf (t + len, cap - len, "mixed ed(int d) { if (d > 0) return ed(d - 1); return %spad(", el->ctx ? "catch(" : "(");
  for (int i = 0; i < SE_PAD; i++) len += (size_t) snprintf (t + len, cap - len, i % 16 == 15 ? "7,\n" : "7,");
  len += (size_t) snprintf (t + len, cap - len, "%s)); }\nmixed edge() { return ed(%d); }\n", el->site < SE_NCSITES ? "7" : se_site_expr[el->site], el->n);
  object_t *o = hx_load ("/c05/se_gen", t);
  free (t);
  if (!o) { vm_fail ("C05:harness:stackedge-object", "cannot load the generated object: %s", hx_last_error); return; }
  add_ref (o, "harness");
  safe_apply_master_ob ("clear_errors", 0);
  /* 1. the stale slot */
  int planted = 0;
  for (int n = SE_NMIN; n <= SE_NMAX; n++) {
    char fn[32]; snprintf (fn, sizeof fn, "stale_%d", n);
    end_of_stack->type = T_NUMBER;
    se_guarded_apply (o, fn);
    if (end_of_stack->type == (el->stale ? T_ARRAY : T_STRING)) { planted = n; break; }
  }
  if (!planted) { vm_fail ("C05:harness:stackedge-stale-slot", "no n in %d..%d leaves a stale %s in the slot at end_of_stack [%s]", SE_NMIN, SE_NMAX, se_stale_name[el->stale], vm_ctx_desc); }
  array_t *keep = o->variables[0].type == T_ARRAY ? o->variables[0].u.arr : 0;
  long ref0 = keep ? (long) keep->ref : -1;
  safe_apply_master_ob ("clear_errors", 0);
  /* 2. the overflow */
  vm_snap_take (&s0);
  vm_ignore_fields = 0; vm_changed_fields = 0;
  int ok;
  if (el->site < SE_NCSITES) {
    /* the driver pushes arguments for an apply, as backend/comm do, with the stack nearly full */
    error_context_t e; ok = 1;
    save_context (&e);
    if (setjmp (e.context)) { restore_context (&e); ok = 0; }
    else {
      while (sp < end_of_stack - 1 - (el->n % 4)) { ++sp; sp->type = T_NUMBER; sp->subtype = 0; sp->u.number = 7; }
      for (int i = 0; i < 8; i++)
        switch (el->site) {
          case 0: push_number (7); break;
          case 1: push_object (o); break;
          case 2: push_real (1.5); break;
          case 3: push_undefined (); break;
          case 4: copy_and_push_string ("copy"); break;
          case 5: share_and_push_string ("share"); break;
          default: push_constant_string ("const"); break;
        }
    }
    pop_context (&e);
  } else
    ok = se_guarded_apply (o, "edge");
  vm_snap_take (&s1);
  vx_count (0, ok ? 0 : 1);
  vx_obs ("  -> stale slot planted by n=%d; the edge evaluation %s", planted, ok ? "returned" : "reached the driver with an error");
  if (el->site < SE_NCSITES && ok) vm_fail ("C05:harness:stackedge-no-overflow", "eight checked pushes at the end of the stack raised nothing [%s]", vm_ctx_desc);
  if (el->site >= SE_NCSITES && ((el->n == SE_NMIN && !ok) || (el->n == SE_NMAX && ok)))
    vm_fail ("C05:harness:stackedge-range", "n=%d %s: the range does not bracket the end of the stack [%s]", el->n, ok ? "fits" : "overflows", vm_ctx_desc);
  char scope[100]; snprintf (scope, sizeof scope, "stack-edge:%s", se_site_name[el->site]);
  if (vm_selftest == 9) s1.sp++;
  vm_snap_diff (&s0, &s1, 0, 1, scope, vm_ctx_desc);
  /* 3. reference audit */
  array_t *keep2 = o->variables[0].type == T_ARRAY ? o->variables[0].u.arr : 0;
  long ref1 = keep2 ? (long) keep2->ref : -1;
  if (vm_selftest == 10) ref1--;
  if (keep2 != keep || ref1 != ref0) {
    char key[160]; snprintf (key, sizeof key, "C05:reference-count-changed-by-stack-overflow:%s", se_site_name[el->site]);
    vm_fail (key, "the array held by a global had %ld reference(s) before the overflow and %ld after it [%s]", ref0, ref1, vm_ctx_desc);
  }
  svalue_t *r = hx_apply (o, "audit", 0);
  if (!r || r->type != T_NUMBER || r->u.number != 4) {
    char key[160]; snprintf (key, sizeof key, "C05:held-values-damaged-by-stack-overflow:%s", se_site_name[el->site]);
    vm_fail (key, "audit() over the values held by a global gives %s instead of 4 [%s]", r && r->type == T_NUMBER ? "another number" : "an error", vm_ctx_desc);
  }
  char pt[16384];
  vm_clear_hooks ();
  vm_probe (pt, sizeof pt);
  if (strcmp (pt, ref_probe)) {
    char tag[60], msg[400], key[120];
    first_diff (ref_probe, pt, tag, sizeof tag, msg, sizeof msg);
    snprintf (key, sizeof key, "C05:probe:%s", tag);
    vm_fail (key, "probe transcript differs from a fresh driver: %s [%s]", msg, vm_ctx_desc);
  }
}
static void se_elem (long idx) {
  se_el *el = se_one_set ? &se_one : &se_els[idx];
  snprintf (vm_ctx_desc, sizeof vm_ctx_desc, "stackedge site=%s %s stale=%s n=%d", se_site_name[el->site], se_ctx_name[el->ctx], se_stale_name[el->stale], el->n);
  vm_run_isolated (se_run, idx);
}
static void se_describe (long idx, char *buf, size_t len) {
  se_el *el = se_one_set ? &se_one : &se_els[idx];
  snprintf (buf, len, "se=%d/%d/%d/%d\nstack overflow at the checked push %s, %s, alignment (recursion depth) %d; the slot at end_of_stack holds a stale %s",
            el->site, el->ctx, el->stale, el->n, se_site_name[el->site], se_ctx_name[el->ctx], el->n, se_stale_name[el->stale]);
}
static int se_main (int argc, char **argv) {
  const char *one = vx_opt ("se", 0);
  if (one) { if (sscanf (one, "%d/%d/%d/%d", &se_one.site, &se_one.ctx, &se_one.stale, &se_one.n) != 4 || se_one.site < 0 || se_one.site >= SE_NSITES) { fprintf (stderr, "bad --se\n"); return 2; } se_one_set = 1; se_nels = 1; }
  else {
    se_els = calloc ((size_t) SE_NSITES * 2 * 2 * (SE_NMAX - SE_NMIN + 1), sizeof *se_els);
    for (int st = 0; st < SE_NSITES; st++) for (int cx = 0; cx < 2; cx++) for (int sl = 0; sl < 2; sl++)
      for (int n = SE_NMIN; n <= SE_NMAX; n++) {
        if (st < SE_NCSITES && (cx || n >= SE_NMIN + 4)) continue;    /* C-level pushes: driver entry only, four start alignments */
        se_els[se_nels++] = (se_el) { st, cx, sl, n };
      }
  }
  fprintf (stderr, HNAME ": part=stackedge sites=%d elements=%ld\n", SE_NSITES, se_nels);
  vx_count_name (0, "fault_raised"); vx_count_name (15, "failure_records_suppressed_as_duplicates");
  vm_shared_init ();
  vx_set_enum (se_nels, se_elem, se_describe);
  int rc = vx_run (argc, argv, 0);
  if (vx_opt ("out", 0)) { char kp[PATH_MAX]; snprintf (kp, sizeof kp, "%s.keys", vx_opt ("out", 0)); vm_write_key_totals (kp); }
  return rc;
}

/* representatives of each frame class for the depth-3 pass */
#define MINI "call,call_other,lfunp,catch,filter_fp,sort_fp,create_clone,m_object_name"
#define CORE "call,inherited,call_other,lfunp,functional,efunp,boundfp,simul_efun,catch,filter_fp,sort_fp,map_mapping,create_load,create_clone,init_move,move_or_destruct,verb_string,m_valid_read,m_object_name"

int main (int argc, char **argv) {
  char mud[PATH_MAX];
  snprintf (mud, sizeof mud, "%s/mudlib/vm", hx_verif_dir ());
  vx_init_args (argc, argv);
  maxdepth = (int) vx_opt_long ("depth", 2);
  if (maxdepth > VM_MAXDEPTH - 1) maxdepth = VM_MAXDEPTH - 1;
  vm_selftest = (int) vx_opt_long ("selftest", 0);
  const char *ks = vx_opt ("kinds", "all");
  if (!strcmp (ks, "core")) ks = CORE;
  if (!strcmp (ks, "mini")) ks = MINI;
  parse_set (ks, kindset, &nkindset, vm_nkinds, vm_kind_index);
  with_giver = (int) vx_opt_long ("giver", 0);
  const char *part = vx_opt ("part", "inject");
  part_sites = !strcmp (part, "sites");
  if (!strcmp (vx_opt ("mode", "error"), "throw")) inj_mode = VM_INJ_THROW;
  if (part_sites) { inj_mode = VM_INJ_NONE; vm_noinj_name = "genuine-error"; parse_set (vx_opt ("leaves", "all"), leafset, &nleafset, vm_nleaves, 0);
    /* leaf 0 is the ordinary leaf: not an error site */
    int j = 0; for (int i = 0; i < nleafset; i++) if (leafset[i] != 0) leafset[j++] = leafset[i]; nleafset = j; }

#ifdef VM_C06
  if (!strcmp (part, "share")) {
    hx_boot (mud, "MaxEvaluationCost 100000000\nMaxArraySize 60000\nMaxMappingSize 70000\nMaxCallDepth 100\n", 0);
    vm_preload_helpers ();
    return c06_share_main (argc, argv);
  }
#endif
  hx_boot (mud, !strcmp (part, "tick") ? "MaxEvaluationCost 30000\nResetDuration 4\nCleanupDuration 4\n" : !strcmp (part, "stackedge") ? "MaxEvaluationCost 30000\nStackSize 150\nMaxCallDepth 100\n" : "MaxEvaluationCost 30000\n", 0);
  vx_count_name (0, "fault_raised"); vx_count_name (1, "caught_by_catch"); vx_count_name (2, "reached_driver");
  vx_count_name (3, "swallowed_by_safe_apply"); vx_count_name (4, "catch_points_checked");
  vm_preload_helpers ();
  if (!strcmp (vx_opt ("master", "plain"), "catch")) {
    /* a master whose error_handler() itself evaluates catch(error(...)) and a successful catch before it logs */
    copy_and_push_string ("eh_catch"); push_number (1);
    safe_apply_master_ob ("set_policy", 2);
  }

  if (pipe (ref_pipe)) return 2;
  int ref_st = in_child (ref_child, 0);
  fcntl (ref_pipe[0], F_SETFL, O_NONBLOCK);
  if (ref_st || read (ref_pipe[0], ref_probe, sizeof ref_probe - 1) <= 0) {
    /* the probe evaluation does not even finish in a fresh driver: report that as the one and only element */
    fprintf (stderr, HNAME ": reference probe did not finish (status 0x%x)\n", ref_st);
    ref_broken = ref_st ? ref_st : -1;
    vm_shared_init ();
    vx_set_enum (1, elem_ref_broken, 0);
    return vx_run (argc, argv, 0);
  }
  if (vx_opt ("show-probe", 0)) fprintf (stderr, "%s", ref_probe);
  if (!strcmp (part, "api")) return api_main (argc, argv);
  if (!strcmp (part, "vital")) return vital_main (argc, argv);
  if (!strcmp (part, "tick")) return tick_main (argc, argv);
  if (!strcmp (part, "stackedge")) return se_main (argc, argv);

  const char *es = vx_opt ("elem", 0);
  if (es) {
    /* one explicit element: <kind>kind>...|->/<u|c>/<k>/<leaf>/<error|throw|none> */
    char *d = strdup (es), *save = 0;
    char *path = strtok_r (d, "/", &save), *vv = strtok_r (0, "/", &save), *kk = strtok_r (0, "/", &save), *lf = strtok_r (0, "/", &save), *md = strtok_r (0, "/", &save);
    if (!path || !vv || !kk || !lf || !md) { fprintf (stderr, "bad --elem\n"); return 2; }
    shapes = calloc (1, sizeof *shapes); nshapes = 1;
    if (strcmp (path, "-")) {
      char *s2 = 0;
      for (char *t = strtok_r (path, ">", &s2); t; t = strtok_r (0, ">", &s2)) {
        int ki = vm_kind_index (t);
        if (ki < 0 || shapes[0].depth >= VM_MAXDEPTH - 1) { fprintf (stderr, "bad kind %s\n", t); return 2; }
        shapes[0].k[shapes[0].depth++] = ki;
      }
    }
    single = 1; single_v = vv[0] == 'c'; single_k = atol (kk); single_leaf = atoi (lf);
    inj_mode = !strcmp (md, "throw") ? VM_INJ_THROW : !strcmp (md, "error") ? VM_INJ_ERROR : VM_INJ_NONE;
    if (inj_mode == VM_INJ_NONE) { part_sites = 1; vm_noinj_name = "genuine-error"; }
  } else
  build_shapes ();
  meas = mmap (0, sizeof (meas_t) * (size_t) (nshapes + 1), PROT_READ | PROT_WRITE, MAP_SHARED | MAP_ANONYMOUS, -1, 0);
  {
    int W = (int) vx_opt_long ("jobs", 16); if (W > 32) W = 32;
    pid_t pids[32];
    fflush (0);
    for (int w = 0; w < W; w++) { pids[w] = fork (); if (pids[w] == 0) { meas_worker (w, W); syscall (SYS_exit_group, 0); } }
    for (int w = 0; w < W; w++) { int st; waitpid (pids[w], &st, 0); }
  }
  /* keep only shapes whose fault-free run reaches the leaf, returns, and leaves the probe unchanged */
  long kept = 0, dropped = 0, broken = 0, nquirk = 0;
  for (long s = 0; s < nshapes; s++) {
    meas_t *m = &meas[s]; char name[300];
    vm_shape_name (shapes[s].k, shapes[s].depth, name, sizeof name);
    int good = m->ok[0] && m->ok[1] && m->hits[0] == 1 && m->hits[1] == 1 && m->n[0] > 0 && m->n[1] > 0;
    int clean = m->probe_ok[0] && m->probe_ok[1] && !m->err[0][0] && !m->err[1][0];
    if (!good) { dropped++; if (vx_opt ("verbose", 0) || dropped <= 40) fprintf (stderr, HNAME ": dropped shape %s: ok=%d/%d hits=%d/%d n=%d/%d %s\n", name, m->ok[0], m->ok[1], m->hits[0], m->hits[1], m->n[0], m->n[1], m->err[0][0] ? m->err[0] : m->err[1]); continue; }
    if (!clean) { broken++; fprintf (stderr, HNAME ": shape %s: %s | %s\n", name, m->err[0], m->err[1]); }
    if ((m->changed[0] | m->changed[1]) & VM_F_NOBJ) nquirk++;
    shapes[kept] = shapes[s]; meas[kept] = meas[s]; kept++;
  }
  fprintf (stderr, HNAME ": %ld shapes (depth<=%d over %d kinds), %ld kept, %ld dropped (leaf not reached), %ld not clean, %ld whose fault-free run changes num_objects_this_thread\n", nshapes, maxdepth, nkindset, kept, dropped, broken, nquirk);
  nshapes = kept;
  if (broken && !vx_opt ("allow-unclean", 0)) { fprintf (stderr, HNAME ": fault-free runs are not clean; fix the harness\n"); return 2; }
  if (dropped * 20 > nshapes + dropped && !vx_opt ("allow-dropped", 0)) { fprintf (stderr, HNAME ": more than 5%% of the shapes never reach their leaf; fix the generator\n"); return 2; }
  cum = calloc ((size_t) (2 * nshapes + 1), sizeof *cum);
  long sumn = 0;
  for (long s = 0; s < nshapes; s++) for (int v = 0; v < 2; v++) { cum[2 * s + v] = total; total += meas[s].n[v] + VM_K0; sumn += meas[s].n[v]; }
  cum[2 * nshapes] = total;
  if (part_sites) total = nshapes * 2L * nleafset;
  if (single) total = 1;
  if (vx_opt ("list", 0)) {
    for (long s = 0; s < nshapes; s++) { char name[300]; vm_shape_name (shapes[s].k, shapes[s].depth, name, sizeof name); printf ("%ld %s N=%d/%d\n", s, name, meas[s].n[0], meas[s].n[1]); }
    return 0;
  }
  fprintf (stderr, HNAME ": part=%s mode=%s elements=%ld (sum of N over shapes x {uncaught,under-catch} = %ld)\n", part, inj_mode == VM_INJ_THROW ? "throw" : inj_mode == VM_INJ_ERROR ? "error" : "-", total, sumn);
  vx_count_name (15, "failure_records_suppressed_as_duplicates");
  vm_shared_init ();
  vx_set_enum (total, elem, describe);
  int rc = vx_run (argc, argv, 0);
  if (vx_opt ("out", 0)) { char kp[PATH_MAX]; snprintf (kp, sizeof kp, "%s.keys", vx_opt ("out", 0)); vm_write_key_totals (kp); }
  return rc;
}
