/* progdump — address-independent dump of a compiled program_t (differential oracle of C02 and C17).
 *
 * Two programs that differ only in where their shared strings / the program block happen to live
 * (function table order, string-switch table order, relocated pointers) dump to the same text;
 * any difference in functions, flags, argument/local counts, variables, strings, inherits, classes,
 * line table, file table or bytecode shows up as a differing line.
 */
#pragma once
#include <stddef.h>
#include <stdint.h>
struct program_s;

#define PD_NO_NAME   1          /* do not print the program's own name (compare programs compiled under different names) */
#define PD_NO_LINES  2          /* leave out file_info / line_info */
#define PD_NO_CODE   4          /* leave out the disassembly */

/* malloc'ed text; never NULL.  Structural problems found while dumping are printed as lines starting with "!!" */
char *pd_dump (struct program_s *prog, int flags);
/* number of "!!" lines in the last dump (disassembly desync, unsorted function table, …) */
int pd_last_problems (void);
uint64_t pd_hash (const char *text);
/* first differing line of two dumps → out ("line N: <a> | <b>"); returns 0 when equal */
int pd_diff (const char *a, const char *b, char *out, size_t n);
