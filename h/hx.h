/* hx — harness support: private front-end for the neolith "stem" objects. */
#pragma once
#include <config.h>
#include "std.h"
#include "rc.h"
#include "src/apply.h"
#include "src/simul_efun.h"
#include "src/error_context.h"
#include "src/interpret.h"
#include "src/simulate.h"
#include "src/backend.h"
#include "src/stralloc.h"
#include "lpc/object.h"
#include "lpc/array.h"
#include "lpc/mapping.h"
#include "lpc/buffer.h"
#include "lpc/class.h"
#include "lpc/program.h"
#include "lpc/functional.h"
#include "lpc/otable.h"
#include "lpc/compiler.h"
#include "lpc/include/origin.h"
#include "vx.h"

extern time_t hx_clock;                 /* virtual wall clock returned by time()/gettimeofday() in driver objects */
extern char hx_last_error[8300];        /* text of the last error that reached hx's driver-level context */
extern long hx_insn_count;              /* bumped by the default H1 callback */
#ifdef NEOLITH_VERIF
extern void (*neolith_verif_insn_hook) (void);
#endif

/* conf_extra: extra lines for the config file (e.g. "MaxCallDepth 6\n"); patch: called after init_config */
void hx_boot (const char *mudlib_abs, const char *conf_extra, void (*patch) (void));
const char *hx_verif_dir (void);
const char *hx_scratch_dir (void);      /* per-process scratch dir (created on demand, under /verif/build/scratch) */

/* driver-style entry: args already pushed; returns value (static slot) or NULL with hx_last_error set */
svalue_t *hx_apply (object_t *ob, const char *fn, int nargs);
svalue_t *hx_apply_origin (object_t *ob, const char *fn, int nargs, int origin);
object_t *hx_load (const char *name, const char *text);        /* load (from text if given) inside an error context */
object_t *hx_find (const char *name);
int hx_guard (void (*fn) (void *), void *arg);                 /* run fn inside a driver-level error context; 1 = error */

/* canonical, address-free rendering of a value */
void hx_canon (svalue_t *v, char *buf, size_t len);
char *hx_canon_s (svalue_t *v);         /* static rotating buffers */

/* master log access (verification master keeps a log array of its applies) */
char *hx_master_str (const char *fn);   /* apply master fn(), canonical text of result */

void hx_std_counts (void);              /* registers counter names 0..3 */
