/* C19, data-race clause for heart_beat_flag (src/backend.c): free-running ThreadSanitizer run of the
 * real backend() loop (init_user_conn, real epoll runtime, real platform_timer thread calling the real
 * heartbeat_timer_callback, call_heart_beat with one heart-beat object) until that object calls
 * shutdown() after --iters beats.  Not a scheduler run: ThreadSanitizer reports are the only findings. */
#include "hx.h"
#include "src/comm.h"
#include "c19_tsan.h"

static long g_iters;

static void elem_fn (long idx) {
  off_t from = lseek (2, 0, SEEK_END);
  char src[300];
  snprintf (src, sizeof src, "int n;\nvoid create() { set_heart_beat(1); }\nvoid heart_beat() { if (++n >= %ld) shutdown(0); }\nint query_n() { return n; }\n", g_iters);
  object_t *ob = hx_load ("c19hb.c", src);
  if (!ob) { vx_fail ("C19:harness:hb-object", "cannot load heart-beat object: %s", hx_last_error); return; }
  g_proceeding_shutdown = 0;
  /* users table as it is after a first connection: on an idle driver the first timer wake-up makes
   * process_io() dereference all_users == NULL (a C09 finding), which would end this run at once */
  if (!all_users) { all_users = calloc (50, sizeof *all_users); max_users = 50; }
  backend ();
  svalue_t *r = hx_apply (ob, "query_n", 0);
  long beats = r && r->type == T_NUMBER ? (long) r->u.number : -1;
  if (beats < g_iters) vx_fail ("C19:harness:hb-count", "backend() returned after %ld beats, wanted %ld", beats, g_iters);
  vx_count (0, beats);
  c19_tsan_what = "backend() heart-beat loop"; c19_tsan_variant = (int) idx;
  scan_tsan (from);
}
static void describe (long i, char *buf, size_t len) { snprintf (buf, len, "free-running backend() with a 500 us heart-beat timer until %ld beats", g_iters); }
static void body (void) { }

int main (int argc, char **argv) {
  char mud[PATH_MAX];
  vx_init_args (argc, argv);
  g_iters = vx_opt_long ("iters", 300);
  vx_count_name (0, "heart_beats");
  snprintf (mud, sizeof mud, "%s/mudlib/base", hx_verif_dir ());
  hx_boot (mud, "", 0);
  vx_set_enum (1, elem_fn, describe);
  return vx_run (argc, argv, body);
}
