/* h_vmerr — shared pieces of the vm-err checks (C05 fault enumeration, C06 ref-count accounting, C04 limits):
 * H1 hook (instruction counter, fault injection, catch monitor, limit monitors), register snapshot,
 * nesting-shape generator, probe evaluation. */
#pragma once
#include "hx.h"

/* ---- statics of src/simulate.c and src/error_context.c (wrapper TUs) */
extern int vw_cgsp_depth (void);
extern object_t *vw_restrict_destruct (void);
extern int vw_num_objects_this_thread (void);
extern const char *vw_last_verb (void);
extern int vw_ec_depth (void);
extern int vw_ec_top_is_catch (void);
extern control_stack_t *vw_ec_top_csp (void);
extern int vw_in_error (void);
extern int vw_in_mudlib_error_handler (void);

void vm_shared_init (void);                            /* parent, before vx_run */
void vm_fail (const char *key, const char *fmt, ...);  /* vx_fail, at most 6 records per key per run; totals in shared memory */
void vm_write_key_totals (const char *path);
extern const char *vm_noinj_name;
extern unsigned vm_elem_alarm_s;                        /* an element running longer is killed and reported as hang:element */
int vm_run_isolated (void (*fn) (long), long idx);   /* run fn(idx) in a forked copy of this process, report its death */

/* ---- register snapshot */
typedef struct {
  svalue_t *sp, *fp;
  control_stack_t *csp;
  const char *pc;
  object_t *cur, *prev, *cg, *rd, *chb, *cint;
  program_t *prog;
  int caller_type, fio, vio, cgsp, ecd, nobj, isa, in_err, in_meh, sortd;
} vm_snap;
void vm_snap_take (vm_snap *s);
/* compares b against a; sp of b is expected to be a->sp + sp_delta; one vx_fail per differing field,
 * key "<scope>:<field>-not-restored"; returns number of differences */
#define VM_F_NOBJ (1u << 14)   /* bit of num_objects_this_thread in vm_changed_fields / vm_ignore_fields */
extern unsigned vm_ignore_fields;   /* fields whose differences are not reported */
extern unsigned vm_changed_fields;  /* fields seen differing since last cleared (reported or not) */
int vm_snap_diff (const vm_snap *a, const vm_snap *b, int sp_delta, int with_pc, const char *scope, const char *ctx);

/* ---- hook */
enum { VM_INJ_NONE, VM_INJ_ERROR, VM_INJ_THROW };
enum { VM_CTX_NONE, VM_CTX_CATCH, VM_CTX_DRIVER, VM_CTX_OTHER };
extern long vm_insn;          /* dispatches since vm_hook_arm() */
extern long vm_fault_at;      /* inject at this dispatch (1-based), 0 = never */
extern int vm_inj_mode;
extern int vm_fired;          /* the injection happened */
extern int vm_fault_ctx;      /* kind of error context that was innermost when the fault was raised */
extern int vm_catch_seen;     /* catches completed */
extern int vm_catch_err;      /* catches completed with a non-zero value */
extern int vm_expect_done;    /* the catch that had to receive the injected value completed */
extern int vm_selftest;       /* model/environment breakage for --selftest */
extern char vm_ctx_desc[600];
#define VM_MAXCVAL 16
extern char vm_cval[VM_MAXCVAL][300];   /* canonical text of the value of every catch that completed with an error, in order */
extern int vm_ncval; /* description of the element, used in failure messages */
extern object_t *vm_fault_object;
extern object_t *vm_giver;            /* entry command giver that the hook destructs right before it raises the fault (0 = none) */ /* if set before vm_hook_arm(): fault_at counts only dispatches made with this current_object */
long vm_insn_in_object (void);
void vm_hook_arm (long fault_at, int mode, int driver_ec_depth);
void vm_hook_disarm (void);
const char *vm_ctx_name (void);
const char *vm_expected_catch_text (void);   /* canonical text of the value a catch must yield for the armed injection */
const char *vm_expected_driver_text (void);  /* error text that must reach the driver when uncaught */

/* ---- nesting shapes */
#define VM_MAXDEPTH 4
#define VMK_LOADS   1   /* compiles a new object: impossible below a compile-time frame */
#define VMK_COMPILE 2   /* the callback runs while the compiler is active */
#define VMK_SWALLOW 4   /* the driver calls the callback through safe_apply (an error there is swallowed) */
typedef struct { const char *name, *decl, *pre, *expr; int flags; } vm_kind;
extern const vm_kind vm_kinds[];
extern const int vm_nkinds;
int vm_kind_index (const char *name);
/* leaf: 0 = ordinary leaf body (for fault injection), >0 = genuine error site number */
extern const char *vm_leaf_names[];
extern int vm_nleaves;
int vm_shape_possible (const int *kinds, int depth);
int vm_shape_text (const int *kinds, int depth, int leaf, char *buf, size_t len);
void vm_shape_name (const int *kinds, int depth, char *buf, size_t len);

/* ---- probe */
void vm_preload_helpers (void);                  /* parent: load helper blueprints */
void vm_clear_hooks (void);
int vm_probe (char *out, size_t len);            /* runs the fixed probe evaluation, transcript text → out; 0 ok */
long vm_master_int (const char *fn, int nargs);  /* args already pushed */
char *vm_master_text (const char *fn, int nargs);
