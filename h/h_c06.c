/* C06 — reference counts are exact: no leaks, nothing freed while referenced.
 * Corpus 1: the C05 corpus (every nesting shape, fault-free and with an error / a thrown value raised at every
 * instruction boundary, uncaught and under a catch).  Corpus 2: sharing patterns (one value held by r holders).
 * Oracle: a scenario is executed three times in one process, each time followed by the driver's deferred clean-up;
 * leak <=> counter vector after run 3 != vector after run 2.  ASan decides "freed while referenced". */
#define VM_C06 1
#define HNAME "h_c06"
#include "c06_temp_cases.h"
#include "h_c05.c"
#include <malloc.h>

extern int vw_co_pending (void);                       /* wrap/w_call_out.c */
extern size_t __sanitizer_get_current_allocated_bytes (void) __attribute__ ((weak));
extern int __sanitizer_install_malloc_and_free_hooks (void (*m) (const volatile void *, size_t), void (*f) (const volatile void *)) __attribute__ ((weak));
static long live_allocs;
static void mhook (const volatile void *p, size_t n) { (void) p; (void) n; live_allocs++; }
static void fhook (const volatile void *p) { if (p) live_allocs--; }

#define NVEC 20
static const char *vec_name[NVEC] = { "num_arrays", "total_array_size", "num_mappings", "total_mapping_nodes", "total_mapping_size",
  "num_distinct_strings", "bytes_distinct_strings", "allocd_strings", "allocd_bytes", "tot_alloc_object", "tot_alloc_object_size",
  "total_num_prog_blocks", "total_prog_block_size", "tot_alloc_sentence", "objects_in_obj_list", "pending_call_outs", "value_stack_depth",
  "control_stack_depth", "allocator_bytes", "live_allocations" };
typedef struct { long v[NVEC]; } cvec;

static object_t **baseline; static int nbaseline;
static void take_baseline (void) {
  int n = 0; for (object_t *o = obj_list; o; o = o->next_all) n++;
  baseline = calloc ((size_t) n + 1, sizeof *baseline); nbaseline = 0;
  for (object_t *o = obj_list; o; o = o->next_all) baseline[nbaseline++] = o;
}
static int in_baseline (object_t *o) { for (int i = 0; i < nbaseline; i++) if (baseline[i] == o) return 1; return 0; }

static void counters (cvec *c) {
  int i = 0, nobj = 0;
  for (object_t *o = obj_list; o; o = o->next_all) nobj++;
  c->v[i++] = num_arrays; c->v[i++] = (long) total_array_size; c->v[i++] = num_mappings; c->v[i++] = total_mapping_nodes; c->v[i++] = total_mapping_size;
  c->v[i++] = num_distinct_strings; c->v[i++] = (long) bytes_distinct_strings; c->v[i++] = allocd_strings; c->v[i++] = (long) allocd_bytes;
  c->v[i++] = (long) tot_alloc_object; c->v[i++] = (long) tot_alloc_object_size; c->v[i++] = (long) total_num_prog_blocks; c->v[i++] = (long) total_prog_block_size;
  c->v[i++] = tot_alloc_sentence; c->v[i++] = nobj; c->v[i++] = vw_co_pending (); c->v[i++] = (long) (sp - start_of_stack + 1); c->v[i++] = (long) (csp - control_stack + 1);
  c->v[i++] = __sanitizer_get_current_allocated_bytes ? (long) __sanitizer_get_current_allocated_bytes () : 0;
  c->v[i++] = live_allocs;
}

static void do_destruct (void *o) { destruct_object ((object_t *) o); }
static void do_sweep (void *u) { (void) u; call_out (); }
static void do_rdo (void *u) { (void) u; remove_destructed_objects (); }

/* what the driver does between evaluations, plus destruct of everything the scenario created */
static void cleanup (void) {
  vm_clear_hooks ();
  safe_apply_master_ob ("clear_errors", 0);
  for (int round = 0; round < 50; round++) {
    object_t *victim = 0;
    for (object_t *o = obj_list; o; o = o->next_all) if (!in_baseline (o) && !(o->flags & O_DESTRUCTED)) { victim = o; break; }
    if (!victim) break;
    /* destruct leaves first is not needed: destruct_object() moves or destructs the contents */
    hx_guard (do_destruct, victim);
    if (round == 49) {
      int left = 0; for (object_t *o = obj_list; o; o = o->next_all) if (!in_baseline (o)) left++;
      if (left > 0) round = 0;       /* many objects: keep going (each pass removes at least one) */
    }
  }
  for (int t = 0; t < 3; t++) { hx_clock += 40; current_time = hx_clock; hx_guard (do_sweep, 0); }
  for (object_t *o = obj_list_destruct; o; o = o->next_all) if (o->ref > 1) vx_obs ("  (destructed object /%s still has %d references)", o->name, o->ref - 1);
  hx_guard (do_rdo, 0);
  free_svalue (&apply_ret_value, "c06"); apply_ret_value = const0u;
  free_svalue (&catch_value, "c06"); catch_value = const1;
  clear_apply_cache ();
  hx_last_error[0] = 0;
}

/* allocd_strings/allocd_bytes count string *references*, and not consistently in the unchanged tree (assign_svalue_no_free() takes a
 * reference without ADD_STRING, free_string_svalue() gives it back with SUB_STRING): a statistic that drifts in fault-free runs
 * cannot decide anything.  Live strings are num_distinct_strings / bytes_distinct_strings.  They are logged, not judged. */
/* tot_alloc_object_size: get_empty_object(0) adds sizeof(object_t), dealloc_object() subtracts sizeof(object_t) - sizeof(svalue_t): the
 * statistic drifts by 16 for every object without variables, in fault-free runs too.  Logged, not judged (tot_alloc_object is exact). */
/* total_mapping_size drifts by 524288 for any mapping that reaches 65536 entries (ints included): a statistic, the property speaks of
 * mappings and mapping nodes; real memory is judged by the allocator figures of the ASan passes. */
static int diagnostic_only (int i) { return i == 4 || i == 7 || i == 8 || i == 10; }
static void report_leak (const cvec *a, const cvec *b, const char *what) {
  for (int i = 0; i < NVEC; i++) if (a->v[i] != b->v[i]) {
    if (diagnostic_only (i)) { vx_obs ("  (diagnostic) %s %+ld", vec_name[i], b->v[i] - a->v[i]); continue; }
    char key[200];
    snprintf (key, sizeof key, "C06:leak:%s:%s", vec_name[i], what);
    vm_fail (key, "%s after run 3 = %ld, after run 2 = %ld (delta %+ld) [%s]", vec_name[i], b->v[i], a->v[i], b->v[i] - a->v[i], vm_ctx_desc);
    vx_obs ("!! %s %+ld", key, b->v[i] - a->v[i]);
  }
}

static int c06_inited;
static void c06_init (void) {
  if (c06_inited) return;
  c06_inited = 1;
  take_baseline ();
  if (__sanitizer_install_malloc_and_free_hooks) __sanitizer_install_malloc_and_free_hooks (mhook, fhook);
}

static void c06_run_shape (const shape_t *sh, int variant, int leaf, long k, int mode, int measuring, result_t *res) {
  static char text[MAXTEXT];
  char name[300];
  cvec vec[3];
  c06_init ();
  vm_shape_name (sh->k, sh->depth, name, sizeof name);
  snprintf (vm_ctx_desc, sizeof vm_ctx_desc, "shape %s leaf=%s %s k=%ld %s", name[0] ? name : "(leaf only)", vm_leaf_names[leaf],
            variant ? "under-catch" : "uncaught", k, mode == VM_INJ_THROW ? "throw" : "error");
  vm_shape_text (sh->k, sh->depth, leaf, text, sizeof text);
  if (!measuring) vx_obs ("%s", vm_ctx_desc);
  vm_ignore_fields = ~0u;
  int ctx = 0;
  for (int run = 0; run < 3; run++) {
    object_t *m = hx_load ("/c05/m.c", text);
    if (!m) {
      snprintf (res->err, sizeof res->err, "shape does not compile: %.80s", hx_last_error);
      if (!measuring) vm_fail ("C06:harness:shape-does-not-compile", "%s: %s", vm_ctx_desc, hx_last_error);
      return;
    }
    vm_hook_arm (k, k ? mode : VM_INJ_NONE, vw_ec_depth () + 1);
    svalue_t *r = hx_apply (m, variant ? "run_c" : "run_u", 0);
    vm_hook_disarm ();
    if (run == 0) {
      res->n = vm_insn; res->ok = r != 0; ctx = vm_fault_ctx;
      if (!(m->flags & O_DESTRUCTED)) {
        svalue_t *h = hx_apply (m, "query_hits", 0);
        res->hits = h && h->type == T_NUMBER ? (int) h->u.number : -1;
      } else res->hits = -2;
      if (!measuring) vx_obs ("  -> %.200s insns=%ld ctx=%d", r ? hx_canon_s (r) : hx_last_error, vm_insn, vm_fault_ctx);
      if (!measuring && k > 0) { if (vm_fired) { vx_count (0, 1); vx_count (vm_fault_ctx == VM_CTX_CATCH ? 1 : vm_fault_ctx == VM_CTX_DRIVER ? 2 : 3, 1); }
        else vm_fail ("C06:harness:fault-not-reached", "dispatch %ld never reached [%s]", k, vm_ctx_desc); }
      if (!measuring && k == 0) vx_count (0, 1);
    }
    cleanup ();
    counters (&vec[run]);
  }
  res->probe_ok = 1;
  if (vm_selftest == 1 && !measuring) vec[2].v[0]++;              /* self-test: corrupt the observation */
  if (!measuring) {
    vm_fault_ctx = ctx;
    char what[120];
    if (leaf) snprintf (what, sizeof what, "error-site:%s:%s", vm_leaf_names[leaf], variant ? "caught" : "uncaught");
    else snprintf (what, sizeof what, "%s", k ? vm_ctx_name () : "no-fault");
    report_leak (&vec[1], &vec[2], what);
  }
}

/* ------------------------------------------------------------------ sharing patterns */
typedef struct { const char *fn; const char *vk; int r; const char *hk; int ord; } share_t;
static share_t *share; static long nshare;
static const char *vkinds[] = { "array", "mapping", "buffer", "class", "funptr", "string", "object" };
static const char *hk_big[] = { "array", "mapping", "funptr_args", "call_out", "add_action" };
static const char *hk_small[] = { "locals", "globals" };

static void add_share (const char *fn, const char *vk, int r, const char *hk, int ord) {
  share = realloc (share, (size_t) (nshare + 1) * sizeof *share);
  share[nshare].fn = fn; share[nshare].vk = vk; share[nshare].r = r; share[nshare].hk = hk; share[nshare].ord = ord; nshare++;
}

static void share_elem1 (long idx) {
  share_t *e = &share[idx];
  cvec vec[3];
  c06_init ();
  snprintf (vm_ctx_desc, sizeof vm_ctx_desc, "%s value=%s holders=%d x %s release-order=%d", e->fn, e->vk, e->r, e->hk, e->ord);
  vx_obs ("%s", vm_ctx_desc);
  for (int run = 0; run < 3; run++) {
    object_t *s = hx_load ("/c06/s", 0);
    if (!s) { vm_fail ("C06:harness:scenario-object", "cannot load /c06/s: %s", hx_last_error); return; }
    svalue_t *r, *sp0 = sp;
    if (!strcmp (e->fn, "run")) {
      copy_and_push_string (e->vk); push_number (e->r); copy_and_push_string (e->hk); push_number (e->ord);
      r = hx_apply (s, "run", 4);
    } else if (!strcmp (e->fn, "clones")) { push_number (e->r); push_number (e->ord); r = hx_apply (s, "clones", 2); }
    else { push_number (e->ord); r = hx_apply (s, e->fn, 1); }
    if (!strcmp (e->fn, "fpout") && r) {
      /* the maker is destructed: run the deferred clean-up and a call_out sweep, then let the holder call the function pointer */
      char r1[200]; snprintf (r1, sizeof r1, "%.190s", hx_canon_s (r));
      hx_guard (do_rdo, 0);
      hx_clock += 2; current_time = hx_clock; hx_guard (do_sweep, 0);
      push_number (e->ord);
      r = hx_apply (s, "fpout2", 1);
      if (run == 0) vx_obs ("  step1 %s", r1);
    }
    /* hx_apply saves its context after the arguments were pushed: on error they are still there (harness, not driver) */
    if (!r && sp > sp0) pop_n_elems ((size_t) (sp - sp0));
    if (run == 0) {
      vx_obs ("  -> %.200s", r ? hx_canon_s (r) : hx_last_error);
      if (!r) vm_fail ("C06:harness:scenario-error", "scenario raised %s [%s]", hx_last_error, vm_ctx_desc);
      else vx_count (0, 1);
    }
    cleanup ();
    counters (&vec[run]);
  }
  if (vm_selftest == 1) vec[2].v[2]++;
  if (!strcmp (e->fn, "cyclic")) return;      /* cyclic containers are not collected by a reference-counting VM: memory safety only */
  char what[100];
  snprintf (what, sizeof what, "%s:%s-held-by-%s%s", e->fn, e->vk, e->r >= 65535 ? "many-" : "", e->hk);
  report_leak (&vec[1], &vec[2], what);
}
static void share_elem (long idx) {
  share_t *e = &share[idx];
  snprintf (vm_ctx_desc, sizeof vm_ctx_desc, "%s value=%s holders=%d x %s release-order=%d", e->fn, e->vk, e->r, e->hk, e->ord);
  int st = vm_run_isolated (share_elem1, idx);
  if (st) {
    char key[160];
    snprintf (key, sizeof key, "C06:crash:%s:%s-held-by-%s%s", e->fn, e->vk, e->r >= 65535 ? "many-" : "", e->hk);
    vm_fail (key, "the driver crashed or shut itself down (status 0x%x) [%s]", st, vm_ctx_desc);
  }
}
static void share_describe (long idx, char *buf, size_t len) {
  share_t *e = &share[idx];
  snprintf (buf, len, "share=%s/%s/%d/%s/%d\n/c06/s->%s(...)", e->fn, e->vk, e->r, e->hk, e->ord, e->fn);
}

static int c06_share_main (int argc, char **argv) {
  static const int rs_quick[] = { 1, 2, 3, 65535, 65536, 65537 };
  int big = (int) vx_opt_long ("big", 1);
  vx_count_name (0, "scenarios_completed"); vx_count_name (15, "failure_records_suppressed_as_duplicates");
  const char *one = vx_opt ("share", 0);
  if (one) {
    char *d = strdup (one), *sv = 0;
    char *fn = strtok_r (d, "/", &sv), *vk = strtok_r (0, "/", &sv), *r = strtok_r (0, "/", &sv), *hk = strtok_r (0, "/", &sv), *ord = strtok_r (0, "/", &sv);
    if (!fn || !vk || !r || !hk || !ord) { fprintf (stderr, "bad --share\n"); return 2; }
    add_share (fn, vk, atoi (r), hk, atoi (ord));
  } else {
    for (unsigned v = 0; v < sizeof vkinds / sizeof *vkinds; v++) {
      for (unsigned h = 0; h < sizeof hk_big / sizeof *hk_big; h++)
        for (unsigned ri = 0; ri < 6; ri++) {
          if (!big && rs_quick[ri] > 3) continue;
          /* --big=2: the boundary itself (65535 and 65536 holders), bulk release, array and mapping holders only */
          if (big == 2 && rs_quick[ri] > 3 && (rs_quick[ri] > 65536 || h > 1)) continue;
          /* --big=3: 65536 holders (65535 as well for strings, whose counter saturates there), array holders, bulk release */
          if (big == 3 && rs_quick[ri] > 3 && (h > 0 || (rs_quick[ri] != 65536 && !(rs_quick[ri] == 65535 && v == 5)))) continue;
          for (int ord = 0; ord < 3; ord++) {
            if (big >= 2 && rs_quick[ri] > 3 && ord != 2) continue;
            /* remove_call_out(handle) and remove_action() scan linearly: with > 65000 entries only the cheap release orders are run */
            if (rs_quick[ri] > 3 && h == 3 && ord != 2) continue;
            if (rs_quick[ri] > 3 && h == 4 && ord == 0) continue;
            add_share ("run", vkinds[v], rs_quick[ri], hk_big[h], ord);
          }
        }
      for (unsigned h = 0; h < sizeof hk_small / sizeof *hk_small; h++)
        for (int r = 1; r <= 3; r++) for (int ord = 0; ord < 3; ord++) { if (h == 0 && ord) continue; add_share ("run", vkinds[v], r, hk_small[h], ord); }
      add_share ("run", vkinds[v], 60, "locals", 0);
      add_share ("run", vkinds[v], 300, "globals", 0);
    }
    for (unsigned ri = 0; ri < 6; ri++) {
      if (!big && rs_quick[ri] > 3) continue;
      if (vx_opt_long ("noclones", 0) && rs_quick[ri] > 3) continue;
      if (big >= 2 && rs_quick[ri] > 3 && rs_quick[ri] != 65536) continue;
      for (int ord = 0; ord < 2; ord++) { if (big >= 2 && rs_quick[ri] > 3 && ord) continue; add_share ("clones", "program", rs_quick[ri], "clone", ord); }
    }
    for (int kd = 0; kd < 3; kd++) add_share ("cyclic", "container", 1, "itself", kd);
    for (int kd = 0; kd < 4; kd++) add_share ("outlive", "callback", 1, "destructed-creator", kd);
    /* zombie: after destruct(this_object()) the still running function calls call_out (by name / funptr), add_action (by name / funptr,
     * carry-over args), input_to, get_char, set_heart_beat, set_living_name, enable_commands, move_object, bind, a plain call, a bound
     * funptr, call_other, filter with extra args, clone, call_out+remove_call_out, notify_fail(function), all with ref-counted arguments */
    for (int kd = 0; kd < 18; kd++) add_share ("zombie", "arguments", 1, "self-destructed-caller", kd);
    /* functional / anonymous function / local funptr / functional using a global, made by A (sole user of its program) and kept by B
     * as is, after bind(f, B), as pending call_out argument, as add_action carry-over argument; A destructed + deferred clean-up; B calls it */
    for (int kd = 0; kd < 16; kd++) add_share ("fpout", "funptr", 1, "holder-after-maker-is-freed", kd);
    /* aliasing: both operands of a binary operator / op-assign are the same array / mapping / string / buffer, through a local, another
     * variable, an array element, a mapping value, a global: += + -= - &= & |= | *= * (whatever the type supports), repeated, range */
    for (int vt = 0; vt < 4; vt++) for (int form = 0; form < 23; form++) add_share ("alias", "same-container-twice", 1, "operands", vt * 32 + form);
    /* temporaries: the container operand of an index / range / member / sizeof / foreach operation is a literal, a call result, a sum
     * or a call_other result (only the value stack refers to it); the value looked up is an array / mapping / string / buffer /
     * funptr / class instance held only by that temporary; the result is used and kept in a global before it is dropped */
    {
      static char hkn[sizeof temp_cases / sizeof *temp_cases][64];
      for (unsigned c = 0; c < sizeof temp_cases / sizeof *temp_cases; c++) {
        snprintf (hkn[c], sizeof hkn[c], "%s:%s", temp_cases[c].src, temp_cases[c].op);
        for (int vt = 0; vt < temp_cases[c].nvt; vt++) add_share ("temp", temp_cases[c].cont, 1, hkn[c], (int) c * 1024 + vt);
      }
    }
    /* call cache: refused call_other (static / private / protected / inherited / prototype / undefined) on a cold and a filled cache */
    for (int kd = 0; kd < 24; kd++) add_share ("refused", "function-name", 1, "apply-cache", kd);
  }
  vm_elem_alarm_s = 600;
  fprintf (stderr, HNAME ": part=share scenarios=%ld\n", nshare);
  vm_shared_init ();
  vx_set_enum (nshare, share_elem, share_describe);
  int rc = vx_run (argc, argv, 0);
  if (vx_opt ("out", 0)) { char kp[PATH_MAX]; snprintf (kp, sizeof kp, "%s.keys", vx_opt ("out", 0)); vm_write_key_totals (kp); }
  return rc;
}
