/* C16 — saved values restore to equal values; saves are atomic; restore is robust.
 *
 * E2 enumeration + fault enumeration on the real lib/lpc/object.c (save_svalue, svalue_save_size, restore_*),
 * lib/lpc/mapping.c (restore_hash_string) and the efuns save_variable/restore_variable/save_object/restore_object.
 * Parts (--part=):
 *   leaves : every leaf of the escape-complete alphabet (13 ints, 6 floats, 511 strings) in 10 contexts,
 *            through the efuns (LPC calls), both save_variable and save_object
 *   struct : every value of the grammar {leaf | array(0..2) | mapping(0..2) | class(1..2)} to depth 3 over a small
 *            leaf set, save_variable/restore_variable and save_object/restore_object (C entry points)
 *   chain  : nesting chains of each container kind around MAX_SAVE_SVALUE_DEPTH
 *   damage : every prefix, single substitution (16 symbols) and single deletion of ~60 saved texts and of 3 save
 *            files, through restore_variable and restore_object (clear / noclear)
 *   strings: every string of length <= 6 (quick 5) over the 15 structural symbols through restore_svalue and
 *            safe_restore_svalue
 *   crash  : save_object over an existing file with a crash before/after each libc call, each libc call failing,
 *            and a left-over temporary truncated to every prefix
 */
#include "hx.h"
#include "fs.h"
#include "options.h"
#include <sys/wait.h>
#include <dirent.h>
#include <signal.h>
#include <math.h>
#include <sys/mman.h>

extern int save_svalue_depth;
extern int *save_svalue_sizes;
extern size_t svalue_save_size (const svalue_t *);
extern char *save_variable (svalue_t *);
extern void restore_variable (svalue_t *, char *);
extern int restore_svalue (char *, svalue_t *);
extern int safe_restore_svalue (char *, svalue_t *);
extern int save_object (object_t *, const char *, int);
extern int restore_object (object_t *, const char *, int);
void __real__exit (int) __attribute__ ((noreturn));

static object_t *O, *OTHER;
static int iv, isv, iov, imarker, ipad, ibv, ibsv;
static const char *part = "leaves";
static int selftest;
#define MAXTEXT_DEFAULT 1000
static int NL = 1, DEPTH = 3, SLEN = 5, NTEXTS = MAXTEXT_DEFAULT, OBJRT = 1;
static const char *scratch_base;
static char my_root[PATH_MAX];
static pid_t root_owner;
static int in_grandchild;

/* ------------------------------------------------------------------ scratch (same scheme as h_c15.c) */
static char shm_base[PATH_MAX];
static pid_t shm_owner;
static void shm_cleanup (void) { if (shm_base[0] && getpid () == shm_owner) fs_rm_rf (shm_base); }
static const char *fs_scratch_base (void) {
  const char *hs = hx_scratch_dir ();
  struct stat st;
  if (getenv ("VERIF_FS_NO_SHM") || stat ("/dev/shm", &st) == -1) return hs;
  snprintf (shm_base, sizeof shm_base, "/dev/shm/verif-fs-%d", (int) getpid ());
  fs_rm_rf (shm_base);
  if (mkdir (shm_base, 0700) == -1) { shm_base[0] = 0; return hs; }
  shm_owner = getpid ();
  atexit (shm_cleanup);
  char ln[PATH_MAX]; snprintf (ln, sizeof ln, "%s/shm", hs);
  if (symlink (shm_base, ln)) {}
  return shm_base;
}
static void ensure_root (void) {
  if (in_grandchild || root_owner == getpid ()) return;
  DIR *d = opendir (scratch_base);
  if (d) {
    struct dirent *de;
    while ((de = readdir (d))) {
      if (de->d_name[0] != 'c' || !isdigit ((unsigned char) de->d_name[1])) continue;
      pid_t p = (pid_t) atol (de->d_name + 1);
      if (p > 0 && kill (p, 0) == -1 && errno == ESRCH) {
        char sub[PATH_MAX]; snprintf (sub, sizeof sub, "%s/%s", scratch_base, de->d_name);
        fs_rm_rf (sub);
      }
    }
    closedir (d);
  }
  snprintf (my_root, sizeof my_root, "%s/c%d", scratch_base, (int) getpid ());
  fs_rm_rf (my_root);
  if (mkdir (my_root, 0755) == -1 || chdir (my_root) == -1) { vx_fail ("HARNESS:scratch", "cannot create %s: %s", my_root, strerror (errno)); vx_child_exit (3); }
  root_owner = getpid ();
}

/* ------------------------------------------------------------------ building values */
static svalue_t V_int (int64_t x) { svalue_t v; memset (&v, 0, sizeof v); v.type = T_NUMBER; v.u.number = x; return v; }
static svalue_t V_real (double x) { svalue_t v; memset (&v, 0, sizeof v); v.type = T_REAL; v.u.real = x; return v; }
static svalue_t V_str (const char *s) { svalue_t v; memset (&v, 0, sizeof v); v.type = T_STRING; v.subtype = STRING_MALLOC; v.u.string = string_copy (s, "c16"); return v; }
static svalue_t V_arr (int n, svalue_t *e) {
  svalue_t v; memset (&v, 0, sizeof v);
  array_t *a = allocate_array (n);
  for (int i = 0; i < n; i++) a->item[i] = e[i];
  v.type = T_ARRAY; v.u.arr = a;
  return v;
}
static svalue_t V_cls (int n, svalue_t *e) {
  svalue_t v; memset (&v, 0, sizeof v);
  array_t *a = allocate_class_by_size (n);
  for (int i = 0; i < n; i++) a->item[i] = e[i];
  v.type = T_CLASS; v.u.arr = a;
  return v;
}
static svalue_t V_map (int n, svalue_t *k, svalue_t *val) {
  svalue_t v; memset (&v, 0, sizeof v);
  mapping_t *m = allocate_mapping (n);
  for (int i = 0; i < n; i++) {
    svalue_t *dst = find_for_insert (m, &k[i], 1);
    *dst = val[i];
    free_svalue (&k[i], "c16 key");
  }
  v.type = T_MAPPING; v.u.map = m;
  return v;
}
static svalue_t V_ob (object_t *ob) { svalue_t v; memset (&v, 0, sizeof v); v.type = T_OBJECT; v.u.ob = ob; add_ref (ob, "c16"); return v; }

/* ------------------------------------------------------------------ deep equality (types and values; floats at the printed precision) */
static char why[400];
static int deq (svalue_t *a, svalue_t *b, int depth) {
  if (a->type == T_OBJECT) {    /* object references are not persisted: they come back as 0 */
    if (b->type == T_NUMBER && b->u.number == 0) return 1;
    snprintf (why, sizeof why, "object reference came back as %s", hx_canon_s (b));
    return 0;
  }
  if (a->type != b->type) { snprintf (why, sizeof why, "type changed at depth %d: %s became %s", depth, hx_canon_s (a), hx_canon_s (b)); return 0; }
  switch (a->type) {
  case T_NUMBER:
    if (a->u.number != b->u.number) { snprintf (why, sizeof why, "int %lld became %lld", (long long) a->u.number, (long long) b->u.number); return 0; }
    return 1;
  case T_REAL: {
    char x[64], y[64];
    snprintf (x, sizeof x, "%g", a->u.real); snprintf (y, sizeof y, "%g", b->u.real);
    if (strcmp (x, y)) { snprintf (why, sizeof why, "float %s became %s", x, y); return 0; }
    return 1;
  }
  case T_STRING:
    if (strcmp (a->u.string, b->u.string)) { snprintf (why, sizeof why, "string %.80s became %.80s", hx_canon_s (a), hx_canon_s (b)); return 0; }
    return 1;
  case T_ARRAY:
  case T_CLASS:
    if (a->u.arr->size != b->u.arr->size) { snprintf (why, sizeof why, "size %d became %d at depth %d", a->u.arr->size, b->u.arr->size, depth); return 0; }
    for (int i = 0; i < a->u.arr->size; i++) if (!deq (&a->u.arr->item[i], &b->u.arr->item[i], depth + 1)) return 0;
    return 1;
  case T_MAPPING: {
    mapping_t *ma = a->u.map, *mb = b->u.map;
    if (ma->count != mb->count) { snprintf (why, sizeof why, "mapping with %d pairs became one with %d", ma->count, mb->count); return 0; }
    for (int i = 0; i <= ma->table_size; i++)
      for (mapping_node_t *n = ma->table[i]; n; n = n->next) {
        int found = 0;
        for (int j = 0; j <= mb->table_size && !found; j++)
          for (mapping_node_t *q = mb->table[j]; q; q = q->next) {
            char keep[400]; memcpy (keep, why, sizeof keep);
            if (deq (&n->values[0], &q->values[0], depth + 1)) {
              found = 1;
              if (!deq (&n->values[1], &q->values[1], depth + 1)) return 0;
              break;
            }
            memcpy (why, keep, sizeof keep);
          }
        if (!found) { snprintf (why, sizeof why, "mapping key %.80s is gone", hx_canon_s (&n->values[0])); return 0; }
        /* walking the buckets is not enough: the restored mapping must answer a lookup of the key, the way LPC's m[k]
           does (int and string keys hash by value; floats are compared at the printed precision above only) */
        if (n->values[0].type == T_NUMBER || n->values[0].type == T_STRING) {
          svalue_t k; assign_svalue_no_free (&k, &n->values[0]);
          svalue_t *hit = find_in_mapping (mb, &k);
          int ok = hit && hit != &const0u && deq (&n->values[1], hit, depth + 1);
          if (!ok) {
            snprintf (why, sizeof why, "mapping key %.60s is listed in the restored mapping (%d pairs) but a lookup of it gives %.40s", hx_canon_s (&n->values[0]), mb->count, hit ? hx_canon_s (hit) : "NULL");
            free_svalue (&k, "c16");
            return 0;
          }
          free_svalue (&k, "c16");
        }
      }
    return 1;
  }
  default:
    return 1;
  }
}

/* ------------------------------------------------------------------ oracle helpers */
static char ctx_key[96];        /* "<class>:<context>" of the element being run */
static char desc_cur[600];

static void fail (const char *what, const char *fmt, ...) {
  char key[200], msg[500];
  va_list ap; va_start (ap, fmt); vsnprintf (msg, sizeof msg, fmt, ap); va_end (ap);
  snprintf (key, sizeof key, "C16:%s:%s", ctx_key, what);
  vx_fail (key, "%s | %s", desc_cur, msg);
  vx_obs ("!! %s %s", key, msg);
}

/* the parser's shared state must be back to rest after every operation, whatever its outcome */
static int at_rest (const char *after) {
  if (save_svalue_sizes != 0) vx_count (6, 1);   /* a retained size table is harmless as long as the counter is 0 */
  if (save_svalue_depth != 0) {
    fail ("parser-state-not-reset", "after %s: save_svalue_depth=%d save_svalue_sizes=%p", after, save_svalue_depth, (void *) save_svalue_sizes);
    return 0;
  }
  return 1;
}

struct rv_arg { svalue_t *out; char *text; int rc; int safe; };
static void rv_fn (void *p) { struct rv_arg *a = p; restore_variable (a->out, a->text); }
static void rs_fn (void *p) { struct rv_arg *a = p; a->rc = a->safe ? safe_restore_svalue (a->text, a->out) : restore_svalue (a->text, a->out); }
struct sv_arg { svalue_t *in; char *text; size_t size; };
static void sv_fn (void *p) { struct sv_arg *a = p; save_svalue_depth = 0; a->size = svalue_save_size (a->in); a->text = save_variable (a->in); }
struct so_arg { const char *name; int flag; int ret; };
static void so_fn (void *p) { struct so_arg *a = p; a->ret = save_object (O, a->name, a->flag); }
static void ro_fn (void *p) { struct so_arg *a = p; a->ret = restore_object (O, a->name, a->flag); }

/* a fixed save+restore that must always work: the behavioural form of "state is at rest" */
static void probe (const char *after) {
  static const char text[] = "({1,({2,\"x\",}),([3:4,]),(/5,/),-6,})";
  char *buf = strdup (text);
  svalue_t r = V_int (0);
  struct rv_arg a = { &r, buf, 0, 0 };
  int perr = hx_guard (rv_fn, &a);
  free (buf);
  if (perr) { fail ("probe-restore-failed", "after %s a well-formed text no longer restores: %s", after, hx_last_error); return; }
  struct sv_arg s = { &r, 0, 0 };
  if (hx_guard (sv_fn, &s)) { fail ("probe-save-failed", "after %s a simple value no longer saves: %s", after, hx_last_error); free_svalue (&r, "c16"); return; }
  if (strcmp (s.text, text)) fail ("probe-differs", "after %s the probe round trip gives %.100s", after, s.text);
  FREE_MSTR (s.text);
  free_svalue (&r, "c16");
}

static void set_var (int idx, svalue_t v) { free_svalue (&O->variables[idx], "c16"); O->variables[idx] = v; }

/* save_variable -> restore_variable on the C entry points; returns malloc'ed copy of the text (or NULL) */
static char *roundtrip_variable (svalue_t *v, int expect_save_ok) {
  struct sv_arg s = { v, 0, 0 };
  if (hx_guard (sv_fn, &s)) {
    if (expect_save_ok) fail ("save-error", "save_variable raised: %.200s", hx_last_error);
    return 0;
  }
  size_t len = strlen (s.text);
  if (s.size < len + 1) fail ("size-underestimated", "svalue_save_size = %zu but the text needs %zu bytes: %.120s", s.size, len + 1, s.text);
  char *copy = strdup (s.text);
  char *work = strdup (s.text);
  FREE_MSTR (s.text);
  svalue_t r = V_int (0);
  struct rv_arg a = { &r, work, 0, 0 };
  if (hx_guard (rv_fn, &a)) fail ("restore-error", "restore_variable(save_variable(v)) raised: %.160s | text %.120s", hx_last_error, copy);
  else {
    if (!deq (v, &r, 0)) fail (strstr (why, "type changed") ? "type-changed" : "value-changed", "%s | text %.120s", why, copy);
    free_svalue (&r, "c16");
  }
  free (work);
  return copy;
}

/* save_object -> restore_object with static and object-valued variables present */
static void roundtrip_object (svalue_t *v, int save_zeros, int expect_save_ok) {
  svalue_t copy; assign_svalue_no_free (&copy, v);
  set_var (iv, copy);
  set_var (isv, V_str ("static-at-save"));
  set_var (iov, V_ob (OTHER));
  set_var (imarker, V_int (77));
  set_var (ibv, V_str ("inherited"));
  set_var (ibsv, V_int (5));
  unlink ("sv.o");
  struct so_arg s = { "sv", save_zeros, -9 };
  if (hx_guard (so_fn, &s)) {
    if (expect_save_ok) fail ("save-error", "save_object raised: %.200s", hx_last_error);
    return;
  }
  if (s.ret != 1) { fail ("save-error", "save_object returned %d", s.ret); return; }
  set_var (iv, V_str ("overwritten"));
  set_var (isv, V_str ("static-before-restore"));
  set_var (iov, V_ob (OTHER));
  set_var (imarker, V_int (1));
  set_var (ibv, V_int (0));
  set_var (ibsv, V_int (6));
  struct so_arg r = { "sv", 0, -9 };
  if (hx_guard (ro_fn, &r)) { fail ("restore-error", "restore_object raised: %.200s", hx_last_error); return; }
  if (r.ret != 1) { fail ("restore-error", "restore_object returned %d", r.ret); return; }
  if (!deq (v, &O->variables[iv], 0)) fail (strstr (why, "type changed") ? "type-changed" : "value-changed", "through the save file: %s", why);
  svalue_t *q = &O->variables[isv];
  if (q->type != T_STRING || strcmp (q->u.string, "static-before-restore")) fail ("static-variable-touched", "static variable is %s after restore_object", hx_canon_s (q));
  q = &O->variables[ibsv];
  if (q->type != T_NUMBER || q->u.number != 6) fail ("static-variable-touched", "inherited static variable is %s after restore_object", hx_canon_s (q));
  q = &O->variables[iov];
  if (!(q->type == T_NUMBER && q->u.number == 0)) fail ("object-reference-persisted", "object-valued variable is %s after restore_object", hx_canon_s (q));
  q = &O->variables[imarker];
  if (q->type != T_NUMBER || q->u.number != 77) fail ("value-changed", "int variable 77 came back as %s", hx_canon_s (q));
  q = &O->variables[ibv];
  if (q->type != T_STRING || strcmp (q->u.string, "inherited")) fail ("value-changed", "inherited variable came back as %s", hx_canon_s (q));
}

/* ------------------------------------------------------------------ leaves */
typedef struct { int kind; int64_t i; double f; char s[8]; char cls[40]; } leaf_t;
static leaf_t LEAF[600];
static int nleaf;
static const int64_t INTS[] = { 0, 1, -1, 2, 7, 255, 256, 2147483648LL, -2147483648LL, 4294967296LL, 9223372036854775807LL, (-9223372036854775807LL - 1) };
static const double REALS[] = { 0.0, 1.0, -2.5, 1e-7, 1e20, 12345678.0 };

static const char *byte_class (unsigned char b) {
  if (b == 10) return "LF";
  if (b == 13) return "CR";
  if (b == 34) return "quote";
  if (b == 92) return "backslash";
  if (b < 32 || b == 127) return "ctrl";
  if (b >= 128) return "high-byte";
  return "ascii";
}
static void init_leaves (void) {
  for (unsigned k = 0; k < sizeof INTS / sizeof INTS[0]; k++) {
    leaf_t *l = &LEAF[nleaf++]; l->kind = T_NUMBER; l->i = INTS[k];
    int64_t x = INTS[k];
    if (x == (-9223372036854775807LL - 1)) strcpy (l->cls, "int-min64");
    else if (x > 2147483647LL || x < -2147483648LL) strcpy (l->cls, "int-beyond-32bit");
    else strcpy (l->cls, "int");
  }
  { leaf_t *l = &LEAF[nleaf++]; l->kind = T_NUMBER; l->i = -2147483649LL; strcpy (l->cls, "int-beyond-32bit"); }
  for (unsigned k = 0; k < sizeof REALS / sizeof REALS[0]; k++) {
    leaf_t *l = &LEAF[nleaf++]; l->kind = T_REAL; l->f = REALS[k];
    char t[64]; snprintf (t, sizeof t, "%g", REALS[k]);
    strcpy (l->cls, (strchr (t, '.') || strchr (t, 'e')) ? "float" : "float-integral");
  }
  for (int b = 1; b < 256; b++) {
    leaf_t *l = &LEAF[nleaf++]; l->kind = T_STRING; l->s[0] = (char) b; l->s[1] = 0;
    snprintf (l->cls, sizeof l->cls, "string-%s", byte_class ((unsigned char) b));
    l = &LEAF[nleaf++]; l->kind = T_STRING; l->s[0] = 'a'; l->s[1] = (char) b; l->s[2] = 'b'; l->s[3] = 0;
    snprintf (l->cls, sizeof l->cls, "string-%s", byte_class ((unsigned char) b));
  }
  { leaf_t *l = &LEAF[nleaf++]; l->kind = T_STRING; strcpy (l->s, "\"\\\n\r"); strcpy (l->cls, "string-mixed-escapes"); }
  { leaf_t *l = &LEAF[nleaf++]; l->kind = T_STRING; l->s[0] = 0; strcpy (l->cls, "string-empty"); }
  { leaf_t *l = &LEAF[nleaf++]; l->kind = T_OBJECT; strcpy (l->cls, "object-reference"); }
  { leaf_t *l = &LEAF[nleaf++]; l->kind = T_STRING; strcpy (l->s, "\xc3\xa9"); strcpy (l->cls, "string-utf8"); }
}
static svalue_t leaf_value (const leaf_t *l) {
  if (l->kind == T_NUMBER) return V_int (l->i);
  if (l->kind == T_REAL) return V_real (l->f);
  if (l->kind == T_OBJECT) return V_ob (OTHER);
  return V_str (l->s);
}

enum { CX_TOP, CX_ARR1, CX_ARR2, CX_MAPVAL, CX_MAPKEY, CX_CLS, CX_NEST_ARR, CX_NEST_MAP, CX_EMPTY, NCX };
static const char *CXNAME[] = { "top", "in-array", "in-array-twice", "mapping-value", "mapping-key", "class-member", "array-in-array", "array-in-mapping", "next-to-empty-containers" };

static svalue_t in_context (const leaf_t *l, int cx) {
  svalue_t e[3], k[2];
  switch (cx) {
  case CX_TOP: return leaf_value (l);
  case CX_ARR1: e[0] = leaf_value (l); return V_arr (1, e);
  case CX_ARR2: e[0] = leaf_value (l); e[1] = leaf_value (l); return V_arr (2, e);
  case CX_MAPVAL: k[0] = V_int (1); e[0] = leaf_value (l); return V_map (1, k, e);
  case CX_MAPKEY: k[0] = leaf_value (l); e[0] = V_int (1); return V_map (1, k, e);
  case CX_CLS: e[0] = leaf_value (l); e[1] = V_int (3); return V_cls (2, e);
  case CX_NEST_ARR: e[0] = leaf_value (l); e[0] = V_arr (1, e); return V_arr (1, e);
  case CX_NEST_MAP: e[0] = leaf_value (l); e[0] = V_arr (1, e); k[0] = V_str ("k"); return V_map (1, k, e);
  default: e[0] = V_arr (0, 0); e[1] = leaf_value (l); e[2] = V_map (0, 0, 0); return V_arr (3, e);
  }
}

/* through the efuns */
static svalue_t *call_O (const char *fn, int nargs) {
  svalue_t *r = hx_apply (O, fn, nargs);
  return r;
}

static void leaves_elem (long idx) {
  int cx = (int) (idx % NCX); idx /= NCX;
  const leaf_t *l = &LEAF[idx];
  /* finding keys: leaf class x {top, mapping-key, in-container}; the exact context is in the message */
  snprintf (ctx_key, sizeof ctx_key, "%s:%s", l->cls, cx == CX_TOP ? "top" : cx == CX_MAPKEY ? "mapping-key" : "in-container");
  svalue_t v = in_context (l, cx);
  snprintf (desc_cur, sizeof desc_cur, "value %.200s", hx_canon_s (&v));
  vx_obs ("%s [%s]", desc_cur, ctx_key);
  /* 1. C entry points, with the size invariant */
  char *text = roundtrip_variable (&v, 1);
  at_rest ("save_variable/restore_variable");
  /* 2. the efuns */
  push_svalue (&v);
  svalue_t *r = call_O ("do_sv", 1);
  if (!r) fail ("save-error", "efun save_variable raised: %.200s", hx_last_error);
  else if (r->type == T_STRING) {
    if (text && strcmp (text, r->u.string)) fail ("efun-differs", "efun save_variable gives %.100s, save_variable() %.100s", r->u.string, text);
    copy_and_push_string (r->u.string);
    svalue_t *q = call_O ("do_rv", 1);
    if (!q) fail ("restore-error", "efun restore_variable raised: %.200s", hx_last_error);
    else if (!deq (&v, q, 0)) fail (strstr (why, "type changed") ? "type-changed" : "value-changed", "through the efuns: %s", why);
  }
  at_rest ("efun save_variable/restore_variable");
  /* 2b. the text is an input: held in a local / global / array element and used twice, it must still be what
     save_variable returned, and both restores must give the value */
  {
    static const char *holder[] = { "do_twice_local", "do_twice_global", "do_twice_array" };
    for (int h = 0; h < 3; h++) {
      push_svalue (&v);
      svalue_t *q = call_O (holder[h], 1);
      if (!q) { if (text) fail ("restore-error", "%s raised: %.200s", holder[h], hx_last_error); continue; }
      if (q->type != T_ARRAY || q->u.arr->size != 4) continue;
      svalue_t *it = q->u.arr->item;
      if (it[0].type == T_STRING && (it[1].type != T_STRING || strcmp (it[0].u.string, it[1].u.string)))
        fail ("restore_variable-modified-its-argument", "%s: the text was %.80s, after two restore_variable() calls the holder has %.80s", holder[h], hx_canon_s (&it[0]), hx_canon_s (&it[1]));
      if (!deq (&v, &it[2], 0)) fail (strstr (why, "type changed") ? "type-changed" : "value-changed", "%s, first restore: %s", holder[h], why);
      if (!deq (&v, &it[3], 0)) fail ("second-restore-of-the-same-text-differs", "%s: %s", holder[h], why);
    }
  }
  at_rest ("restore_variable of a held text, twice");
  /* 3. save_object / restore_object, zeros saved and not */
  roundtrip_object (&v, 0, 1);
  at_rest ("save_object/restore_object");
  roundtrip_object (&v, 1, 1);
  at_rest ("save_object(,1)/restore_object");
  probe ("the round trips");
  free (text);
  free_svalue (&v, "c16");
  vx_count (0, 1);
}

/* ------------------------------------------------------------------ struct: the value grammar to depth DEPTH */
#define MAXD 4
static long cntV[MAXD], cntA[MAXD], cntM[MAXD], cntC[MAXD];
#define NK 2
static svalue_t small_leaf (int i) { return i == 0 ? V_int (7) : V_str ("a\"b"); }
static svalue_t small_key (int i) { return i == 0 ? V_int (1) : V_str ("k"); }
static void init_counts (void) {
  cntV[0] = NL;
  for (int d = 1; d < MAXD; d++) {
    long n = cntV[d - 1];
    cntA[d] = 1 + n + n * n;
    cntM[d] = 1 + NK * n + (NK * (NK - 1) / 2) * n * n;
    cntC[d] = n + n * n;
    cntV[d] = NL + cntA[d] + cntM[d] + cntC[d];
  }
}
static svalue_t build (int d, long idx) {
  svalue_t e[2], k[2];
  if (idx < NL) return small_leaf ((int) idx);
  idx -= NL;
  long n = cntV[d - 1];
  if (idx < cntA[d]) {
    if (idx == 0) return V_arr (0, 0);
    idx -= 1;
    if (idx < n) { e[0] = build (d - 1, idx); return V_arr (1, e); }
    idx -= n;
    e[0] = build (d - 1, idx / n); e[1] = build (d - 1, idx % n);
    return V_arr (2, e);
  }
  idx -= cntA[d];
  if (idx < cntM[d]) {
    if (idx == 0) return V_map (0, 0, 0);
    idx -= 1;
    if (idx < NK * n) { k[0] = small_key ((int) (idx / n)); e[0] = build (d - 1, idx % n); return V_map (1, k, e); }
    idx -= NK * n;
    k[0] = small_key (0); k[1] = small_key (1);
    e[0] = build (d - 1, idx / n); e[1] = build (d - 1, idx % n);
    return V_map (2, k, e);
  }
  idx -= cntM[d];
  if (idx < n) { e[0] = build (d - 1, idx); return V_cls (1, e); }
  idx -= n;
  e[0] = build (d - 1, idx / n); e[1] = build (d - 1, idx % n);
  return V_cls (2, e);
}
#define STRUCT_BLOCK 64
static void struct_elem (long blk) {
  long from = blk * STRUCT_BLOCK, to = from + STRUCT_BLOCK;
  if (to > cntV[DEPTH]) to = cntV[DEPTH];
  strcpy (ctx_key, "structure");
  for (long i = from; i < to; i++) {
    svalue_t v = build (DEPTH, i);
    snprintf (desc_cur, sizeof desc_cur, "value #%ld %.300s", i, hx_canon_s (&v));
    if (i == from) vx_obs ("%s", desc_cur);
    char *text = roundtrip_variable (&v, 1);
    int ok = at_rest ("save_variable/restore_variable");
    if (OBJRT) {
      roundtrip_object (&v, (int) (i & 1), 1);
      ok &= at_rest ("save_object/restore_object");
    }
    if (!ok) probe ("a structure round trip");
    free (text);
    free_svalue (&v, "c16");
    vx_count (1, 1);
  }
  probe ("a block of structure round trips");
  vx_count (0, 1);
}

/* ------------------------------------------------------------------ chain: nesting around the limit */
static const int CHAIN_N[] = { 1, 2, MAX_SAVE_SVALUE_DEPTH - 2, MAX_SAVE_SVALUE_DEPTH - 1, MAX_SAVE_SVALUE_DEPTH, MAX_SAVE_SVALUE_DEPTH + 1, MAX_SAVE_SVALUE_DEPTH + 2, 2 * MAX_SAVE_SVALUE_DEPTH };
#define NCHAIN_N (int) (sizeof CHAIN_N / sizeof CHAIN_N[0])
static const char *CHAIN_KIND[] = { "array", "mapping-value", "class", "mapping-key", "alternating" };
static svalue_t chain (int kind, int n) {
  svalue_t v = V_int (7), e[1], k[1];
  for (int i = 0; i < n; i++) {
    int kd = kind == 4 ? i % 3 : kind;
    switch (kd) {
    case 0: e[0] = v; v = V_arr (1, e); break;
    case 1: k[0] = V_int (1); e[0] = v; v = V_map (1, k, e); break;
    case 2: e[0] = v; v = V_cls (1, e); break;
    default: k[0] = v; e[0] = V_int (1); v = V_map (1, k, e); break;
    }
  }
  return v;
}
static void chain_elem (long idx) {
  int n = CHAIN_N[idx % NCHAIN_N]; int kind = (int) (idx / NCHAIN_N);
  snprintf (ctx_key, sizeof ctx_key, "nesting-chain:%s", n <= MAX_SAVE_SVALUE_DEPTH ? "within-limit" : "beyond-limit");
  snprintf (desc_cur, sizeof desc_cur, "%d nested containers (%s), limit %d", n, CHAIN_KIND[kind], MAX_SAVE_SVALUE_DEPTH);
  vx_obs ("%s", desc_cur);
  svalue_t v = chain (kind, n);
  int within = n <= MAX_SAVE_SVALUE_DEPTH;
  char *text = roundtrip_variable (&v, within);
  at_rest ("save_variable/restore_variable");
  probe ("save_variable of a chain");
  roundtrip_object (&v, 0, within);
  at_rest ("save_object/restore_object");
  probe ("save_object of a chain");
  free (text);
  free_svalue (&v, "c16");
  vx_count (0, 1);
}

/* ------------------------------------------------------------------ damage */
static const char SYMS[] = "({[/\",:})]\\-.e+1";         /* the 14 structural symbols, '+' and a digit */
#define NSYM 16
#define MAXTEXT 96
static char *TEXT[MAXTEXT]; static int ntext; static long text_off[MAXTEXT + 1];
static char *FILES[4]; static int nfiles; static long file_off[5];
static const char FSYMS[] = "({[/\",:})]\\-.e+1 \n#";
#define NFSYM 19

static void add_text (svalue_t v) {
  struct sv_arg s = { &v, 0, 0 };
  if (!hx_guard (sv_fn, &s) && ntext < MAXTEXT && ntext < NTEXTS) { TEXT[ntext++] = strdup (s.text); FREE_MSTR (s.text); }
  save_svalue_depth = 0;
  free_svalue (&v, "c16");
}
static void init_texts (void) {
  /* leaves of every class, alone and in containers */
  static const char *strs[] = { "", "a", "a\"b", "a\\b", "a\nb", "\\", "\"", "a\xc3\xa9z", "\xe9" };
  svalue_t e[3], k[2];
  add_text (V_int (0)); add_text (V_int (-1)); add_text (V_int (256)); add_text (V_int (4294967296LL));
  add_text (V_real (-2.5)); add_text (V_real (1e-7)); add_text (V_real (1e20)); add_text (V_real (12345678.0));
  /* nesting of every kind in every kind (outer 3 = container used as a mapping key) */
  for (int outer = 0; outer < 4; outer++) for (int inner = 0; inner < 3; inner++) {
    svalue_t one[1], in;
    one[0] = V_int (1);
    if (inner == 0) in = V_arr (1, one);
    else if (inner == 1) { k[0] = V_str ("k"); in = V_map (1, k, one); }
    else in = V_cls (1, one);
    switch (outer) {
    case 0: e[0] = in; e[1] = V_int (9); add_text (V_arr (2, e)); break;
    case 1: k[0] = V_int (1); e[0] = in; add_text (V_map (1, k, e)); break;
    case 2: e[0] = in; e[1] = V_int (9); add_text (V_cls (2, e)); break;
    default: k[0] = in; e[0] = V_int (1); add_text (V_map (1, k, e)); break;
    }
  }
  add_text (chain (4, 4));
  add_text (chain (0, 6));
  for (unsigned i = 0; i < sizeof strs / sizeof strs[0]; i++) add_text (V_str (strs[i]));
  add_text (V_arr (0, 0)); add_text (V_map (0, 0, 0));
  e[0] = V_int (1); add_text (V_arr (1, e));
  e[0] = V_int (-1); e[1] = V_real (-2.5); add_text (V_arr (2, e));
  for (unsigned i = 0; i < sizeof strs / sizeof strs[0]; i++) { e[0] = V_str (strs[i]); e[1] = V_int (2); add_text (V_arr (2, e)); }
  for (unsigned i = 0; i < sizeof strs / sizeof strs[0]; i++) { k[0] = V_str (strs[i]); e[0] = V_str (strs[i]); add_text (V_map (1, k, e)); }
  k[0] = V_int (1); e[0] = V_int (2); add_text (V_map (1, k, e));
  k[0] = V_real (-2.5); e[0] = V_real (1e-7); add_text (V_map (1, k, e));
  k[0] = V_int (1); k[1] = V_str ("k"); e[0] = V_arr (0, 0); e[1] = V_map (0, 0, 0); add_text (V_map (2, k, e));
  e[0] = V_int (1); add_text (V_cls (1, e));
  e[0] = V_str ("a\"b"); e[1] = V_real (-2.5); add_text (V_cls (2, e));
  text_off[0] = 0;
  for (int i = 0; i < ntext; i++) text_off[i + 1] = text_off[i] + (long) strlen (TEXT[i]) * (NSYM + 2);
  FILES[nfiles++] = strdup ("#/c16/o.c\nv ({1,\"a\",})\nmarker 5\nbv ([\"k\":2,])\n");
  FILES[nfiles++] = strdup ("v \"a\\\"b\"\npad \"xyz\"\nmarker -3\n");
  FILES[nfiles++] = strdup ("marker 5\nsv 5\nv (/1,({2,}),/)\nbv 2.5\n");    /* names a static variable */
  file_off[0] = 0;
  for (int i = 0; i < nfiles; i++) file_off[i + 1] = file_off[i] + (long) strlen (FILES[i]) * (NFSYM + 2);
}
/* mutation m of text t (length n) over `syms`: [0,n) prefixes, [n, n+n*ns) substitutions, then n deletions */
static int mutate (const char *t, long m, const char *syms, int ns, char *out, char *what, size_t wl) {
  long n = (long) strlen (t);
  if (m < n) { memcpy (out, t, (size_t) m); out[m] = 0; snprintf (what, wl, "prefix of length %ld", m); return 1; }
  m -= n;
  if (m < n * ns) {
    long pos = m / ns; char c = syms[m % ns];
    if (t[pos] == c) return 0;
    strcpy (out, t); out[pos] = c;
    snprintf (what, wl, "byte %ld replaced by '%c'", pos, c == '\n' ? 'n' : c);
    return 1;
  }
  m -= n * ns;
  memcpy (out, t, (size_t) m); strcpy (out + m, t + m + 1);
  snprintf (what, wl, "byte %ld deleted", m);
  return 1;
}

static const char *OLDSTR = "old-value";
static void damage_file (const char *content, int noclear, const char *label) {
  /* old values everywhere, then restore from the damaged file */
  set_var (iv, V_str (OLDSTR)); set_var (imarker, V_int (41)); set_var (ipad, V_str ("oldpad")); set_var (ibv, V_str ("oldbv"));
  set_var (isv, V_str ("static")); set_var (ibsv, V_int (6));
  fs_spit ("dm.o", content, strlen (content));
  struct so_arg r = { "dm", noclear, -9 };
  int err = hx_guard (ro_fn, &r);
  vx_obs ("  restore_object(%s) -> %s", label, err ? hx_last_error : (r.ret == 1 ? "1" : "0"));
  at_rest (label);
  /* every variable must hold a well-formed value (walk them) */
  for (int i = 0; i < O->prog->num_variables_total; i++) (void) hx_canon_s (&O->variables[i]);
  svalue_t *q = &O->variables[isv];
  if (q->type != T_STRING || strcmp (q->u.string, "static")) fail ("static-variable-touched", "%s: static variable is %s", label, hx_canon_s (q));
  vx_count (err ? 2 : 3, 1);
}

static void damage_elem (long idx) {
  char buf[512], what[80];
  long ntext_total = text_off[ntext];
  if (idx < ntext_total * 3) {
    int mode = (int) (idx % 3); idx /= 3;
    int t = 0; while (idx >= text_off[t + 1]) t++;
    long m = idx - text_off[t];
    strcpy (ctx_key, mode == 0 ? "damaged-text:restore_variable" : mode == 1 ? "damaged-text:restore_object" : "damaged-text:restore_object-noclear");
    if (!mutate (TEXT[t], m, SYMS, NSYM, buf, what, sizeof what)) return;
    snprintf (desc_cur, sizeof desc_cur, "text %.100s, %s: %.100s", TEXT[t], what, buf);
    vx_obs ("%s", desc_cur);
    if (mode == 0) {
      char *work = strdup (buf);
      svalue_t r = V_int (0);
      struct rv_arg a = { &r, work, 0, 0 };
      int err = hx_guard (rv_fn, &a);
      if (!err) { (void) hx_canon_s (&r); free_svalue (&r, "c16"); }
      vx_obs ("  restore_variable -> %s", err ? hx_last_error : "value");
      at_rest ("restore_variable of damaged text");
      free (work);
      vx_count (err ? 2 : 3, 1);
    } else {
      char file[700];
      snprintf (file, sizeof file, "#/c16/o.c\nmarker 9\nv %s\nbv 3\n", buf);
      damage_file (file, mode == 2, mode == 2 ? "damaged value, noclear" : "damaged value");
      svalue_t *q = &O->variables[iv];
      int restored = !(q->type == T_STRING && !strcmp (q->u.string, OLDSTR));
      if (mode == 2 && hx_last_error[0] && strstr (hx_last_error, "while restoring v")) {
        /* docs/efuns/restore_object.md: "In the case of an error, the affected variable will be left untouched" */
        if (restored) fail ("noclear-old-value-lost", "error while restoring v, but v is now %s", hx_canon_s (q));
      }
    }
    probe ("restoring damaged text");
    vx_count (0, 1);
    return;
  }
  idx -= ntext_total * 3;
  int noclear = (int) (idx % 2); idx /= 2;
  int f = 0; while (idx >= file_off[f + 1]) f++;
  long m = idx - file_off[f];
  char fbuf[512];
  strcpy (ctx_key, noclear ? "damaged-file:restore_object-noclear" : "damaged-file:restore_object");
  if (!mutate (FILES[f], m, FSYMS, NFSYM, fbuf, what, sizeof what)) return;
  snprintf (desc_cur, sizeof desc_cur, "save file #%d, %s", f, what);
  vx_obs ("%s", desc_cur);
  damage_file (fbuf, noclear, noclear ? "damaged file, noclear" : "damaged file");
  probe ("restoring a damaged file");
  vx_count (0, 1);
}
static long damage_total (void) { return text_off[ntext] * 3 + file_off[nfiles] * 2; }

/* ------------------------------------------------------------------ strings: all short strings over the structural alphabet */
static const char SSYMS[] = "({[/\",:})]\\-.e+1";
#define NS 16
static long pw (long b, int e) { long r = 1; while (e-- > 0) r *= b; return r; }
static long strings_total (void) { long t = 0; for (int L = 0; L <= SLEN; L++) t += pw (NS, L > 2 ? L - 2 : 0); return t; }
static void one_string (const char *s) {
  /* exact-size heap copies, as the efun has them (unlink_string_svalue): an overrun is a heap-buffer-overflow */
  char *w1 = strdup (s), *w2 = strdup (s);
  if (vx_replaying ()) vx_obs ("  %s", s);
  svalue_t r = V_int (0);
  struct rv_arg a = { &r, w1, 0, 0 };
  int err = hx_guard (rs_fn, &a);
  if (!err && !(a.rc & ROB_ERROR)) { (void) hx_canon_s (&r); free_svalue (&r, "c16"); vx_count (3, 1); } else vx_count (2, 1);
  if (!at_rest ("restore_svalue")) { snprintf (desc_cur, sizeof desc_cur, "text %s", s); save_svalue_depth = 0; }
  svalue_t old = V_str (OLDSTR);
  struct rv_arg b = { &old, w2, 0, 1 };
  err = hx_guard (rs_fn, &b);
  if (err || (b.rc & ROB_ERROR)) {
    if (!(old.type == T_STRING && !strcmp (old.u.string, OLDSTR))) { snprintf (desc_cur, sizeof desc_cur, "text %s", s); fail ("noclear-old-value-lost", "safe_restore_svalue failed (rc %d) but the old value is now %s", b.rc, hx_canon_s (&old)); }
  } else (void) hx_canon_s (&old);
  free_svalue (&old, "c16");
  if (!at_rest ("safe_restore_svalue")) { snprintf (desc_cur, sizeof desc_cur, "text %s", s); save_svalue_depth = 0; }
  free (w1); free (w2);
  vx_count (1, 2);
}
static void strings_elem (long idx) {
  int L = 0;
  for (;; L++) { long c = pw (NS, L > 2 ? L - 2 : 0); if (idx < c) break; idx -= c; }
  char s[16]; int pre = L > 2 ? L - 2 : 0, suf = L - pre;
  for (int i = pre - 1; i >= 0; i--) { s[i] = SSYMS[idx % NS]; idx /= NS; }
  strcpy (ctx_key, "structural-string");
  long nsuf = pw (NS, suf);
  for (long j = 0; j < nsuf; j++) {
    long x = j;
    for (int i = L - 1; i >= pre; i--) { s[i] = SSYMS[x % NS]; x /= NS; }
    s[L] = 0;
    snprintf (desc_cur, sizeof desc_cur, "text %s", s);
    one_string (s);
  }
  snprintf (desc_cur, sizeof desc_cur, "block of length-%d strings ending the prefix '%.*s'", L, pre, s);
  probe ("a block of structural strings");
  vx_count (0, 1);
}

/* ------------------------------------------------------------------ crash / fault points of save_object over an existing file */
static const int PADS[] = { 10, 5000, 9000 };
#define NPAD 3
#define NCALL 14
static void set_state (int newer, int pad) {
  svalue_t e[3], k[1];
  e[0] = V_int (newer ? 2 : 1); e[1] = V_str (newer ? "new" : "old");
  k[0] = V_str ("k"); svalue_t mv[1]; mv[0] = V_real (newer ? 4.5 : 3.5); e[2] = V_map (1, k, mv);
  set_var (iv, V_arr (3, e));
  set_var (imarker, V_int (newer ? 42 : 41));
  char *p = malloc ((size_t) pad + 1); memset (p, newer ? 'N' : 'O', (size_t) pad); p[pad] = 0;
  set_var (ipad, V_str (p)); free (p);
  set_var (ibv, V_int (newer ? 8 : 7));
  set_var (isv, V_str ("static")); set_var (ibsv, V_int (6)); set_var (iov, V_ob (OTHER));
}
static int clean_save (const char *name, int zeros) {
  struct so_arg s = { name, zeros, -9 };
  if (hx_guard (so_fn, &s)) return -1;
  return s.ret;
}
static void crash_hook (void) { __real__exit (0); }

static void verdict (const char *oldc, size_t oldn, const char *newc, size_t newn, int ret, int have_ret, const char *label) {
  size_t n; char *now = fs_slurp ("sv.o", &n);
  int is_old = now && n == oldn && !memcmp (now, oldc, n);
  int is_new = now && n == newn && !memcmp (now, newc, n);
  if (!is_old && !is_new) fail ("save-file-neither-old-nor-new", "%s: sv.o has %zu bytes (old %zu, new %zu)%s", label, now ? n : 0, oldn, newn, now ? "" : " [missing]");
  else if (have_ret && ret == 1 && !is_new) fail ("save-reported-success-but-old-file", "%s: save_object returned 1 but sv.o still has the old content", label);
  else if (have_ret && ret != 1 && !is_old) fail ("save-reported-failure-but-new-file", "%s: save_object returned %d but sv.o has the new content", label, ret);
  vx_obs ("  %s -> sv.o is %s%s", label, is_old ? "old" : is_new ? "new" : "DAMAGED", have_ret ? (ret == 1 ? ", returned 1" : ", returned 0/error") : "");
  free (now);
}

static void crash_elem (long idx) {
  int zeros = (int) (idx % 2); idx /= 2;
  int pad = PADS[idx % NPAD]; idx /= NPAD;
  int mode = (int) (idx % 4); idx /= 4;         /* 0 crash before, 1 crash after, 2 fail EIO, 3 fail ENOSPC */
  int k = (int) idx;                            /* libc call index */
  snprintf (ctx_key, sizeof ctx_key, "save_object:%s", mode < 2 ? "crash" : "failing-call");
  snprintf (desc_cur, sizeof desc_cur, "save_object over an existing file, pad %d, save_zeros %d, libc call #%d %s", pad, zeros, k,
            mode == 0 ? "never happens (crash before it)" : mode == 1 ? "is the last thing that happens (crash after it)" : mode == 2 ? "fails with EIO" : "fails with ENOSPC");
  vx_obs ("%s", desc_cur);
  fs_rm_children (".", 0);
  /* the complete new file, for reference */
  set_state (1, pad);
  if (clean_save ("nw", zeros) != 1) { fail ("HARNESS-clean-save-failed", "reference save failed: %s", hx_last_error); return; }
  size_t newn; char *newc = fs_slurp ("nw.o", &newn);
  /* the old file */
  set_state (0, pad);
  if (clean_save ("sv", zeros) != 1) { fail ("HARNESS-clean-save-failed", "old save failed"); free (newc); return; }
  size_t oldn; char *oldc = fs_slurp ("sv.o", &oldn);
  if (!newc || !oldc) { fail ("HARNESS-clean-save-failed", "cannot read reference files"); free (newc); free (oldc); return; }
  /* file names differ in the header only if the program name is printed, not the save name: check */
  set_state (1, pad);
  if (mode < 2) {
    fflush (0);
    pid_t pid = fork ();
    if (pid == 0) {
      in_grandchild = 1;
      fs_reset (); fs_crash_at = k; fs_crash_after = mode; fs_crash_hook = crash_hook;
      fs_active = 1;
      clean_save ("sv", zeros);
      fs_active = 0;
      __real__exit (0);         /* the call index was beyond the end of the save: nothing crashed */
    }
    int status = 0;
    while (waitpid (pid, &status, 0) == -1 && errno == EINTR) ;
    if (WIFSIGNALED (status)) fail ("died", "save process died with signal %d", WTERMSIG (status));
    verdict (oldc, oldn, newc, newn, 0, 0, "after the crash");
    /* the next boot: the object restores from what is there, and can save again */
    struct so_arg r = { "sv", 0, -9 };
    set_state (0, 1);
    if (hx_guard (ro_fn, &r) || r.ret != 1) fail ("restore-after-crash-failed", "restore_object after the crash: ret %d %s", r.ret, hx_last_error);
    set_state (1, pad);
    if (clean_save ("sv", zeros) != 1) fail ("save-after-crash-failed", "save_object after the crash does not succeed");
    else verdict (newc, newn, newc, newn, 1, 1, "save after the crash");
    vx_count (4, 1);
  } else {
    fs_reset (); fs_fail_at = k; fs_fail_errno = mode == 2 ? EIO : ENOSPC;
    fs_active = 1;
    int ret = clean_save ("sv", zeros);
    fs_active = 0;
    int injected = 0;
    for (int i = 0; i < fs_nlog && i < FS_LOGMAX; i++) if (fs_log[i].injected == 1) { injected = 1; char d[300]; vx_obs ("  failed: %s", fs_describe (&fs_log[i], d, sizeof d)); }
    verdict (oldc, oldn, newc, newn, ret, 1, injected ? "with the failing call" : "no call failed");
    if (injected) vx_count (5, 1);
    if (selftest == 2 && injected) { /* self-test: the environment tears the save file behind the driver's back */
      fs_spit ("sv.o", newc, newn / 2);
      verdict (oldc, oldn, newc, newn, ret, 1, "self-test torn file");
    }
  }
  at_rest ("save_object");
  free (newc); free (oldc);
  vx_count (0, 1);
}
/* left-over temporary of every length: restore reads the old file, the next save succeeds completely */
static void torn_elem (long p) {
  strcpy (ctx_key, "save_object:left-over-temporary");
  fs_rm_children (".", 0);
  set_state (1, 10);
  if (clean_save ("nw", 1) != 1) { fail ("HARNESS-clean-save-failed", "reference save failed"); return; }
  size_t newn; char *newc = fs_slurp ("nw.o", &newn);
  set_state (0, 10);
  if (clean_save ("sv", 1) != 1) { free (newc); return; }
  size_t oldn; char *oldc = fs_slurp ("sv.o", &oldn);
  if ((size_t) p > newn) { free (newc); free (oldc); return; }
  snprintf (desc_cur, sizeof desc_cur, "temporary sv.o.tmp left behind with the first %ld of %zu bytes", p, newn);
  vx_obs ("%s", desc_cur);
  fs_spit ("sv.o.tmp", newc, (size_t) p);
  set_state (1, 10);
  struct so_arg r = { "sv", 0, -9 };
  if (hx_guard (ro_fn, &r) || r.ret != 1) fail ("restore-with-left-over-temporary-failed", "ret %d %s", r.ret, hx_last_error);
  else {
    svalue_t *q = &O->variables[imarker];
    if (!(q->type == T_NUMBER && q->u.number == 41)) fail ("restore-read-the-temporary", "marker is %s, the old file says 41", hx_canon_s (q));
  }
  set_state (1, 10);
  int ret = clean_save ("sv", 1);
  verdict (oldc, oldn, newc, newn, ret, 1, "save over the left-over temporary");
  if (ret == 1 && access ("sv.o.tmp", F_OK) == 0) fail ("temporary-left-after-successful-save", "sv.o.tmp still exists");
  free (newc); free (oldc);
  vx_count (0, 1);
}
#define NTORN 400
static long crash_total (void) { return (long) NCALL * 4 * NPAD * 2 + NTORN; }

/* ------------------------------------------------------------------ names: the save-file name handling (".c"/".o" stripping) */
static const char *NAMES[] = { "", "s", "c", "o", ".c", ".o", "sv", "sv.c", "sv.o", "sv.o.c", "a.b" };
#define NNAMES (int) (sizeof NAMES / sizeof NAMES[0])
static void names_elem (long idx) {
  int via = (int) (idx % 2); const char *nm = NAMES[idx / 2];
  snprintf (ctx_key, sizeof ctx_key, "save-file-name:%s", strlen (nm) < 2 ? "shorter-than-extension" : "plain");
  snprintf (desc_cur, sizeof desc_cur, "save_object/restore_object(\"%s\") %s", nm, via ? "through the efuns" : "through the C entry points, name in an exact-size heap buffer");
  vx_obs ("%s", desc_cur);
  fs_rm_children (".", 0);
  set_state (1, 10);
  /* expected file: the name without a trailing ".c", then without a trailing ".o", plus ".o" */
  char want[32]; strcpy (want, nm);
  size_t l = strlen (want);
  if (l >= 2 && !strcmp (want + l - 2, ".c")) want[l -= 2] = 0;
  if (l >= 2 && !strcmp (want + l - 2, ".o")) want[l -= 2] = 0;
  strcat (want, ".o");
  int ret;
  if (via) {
    copy_and_push_string (nm); push_number (1);
    svalue_t *r = call_O ("do_save", 2);
    ret = r && r->type == T_NUMBER ? (int) r->u.number : -1;
  } else {
    char *heap = malloc (strlen (nm) + 1); strcpy (heap, nm);
    struct so_arg a = { heap, 1, -9 };
    ret = hx_guard (so_fn, &a) ? -1 : a.ret;
    free (heap);
  }
  (void) want;
  if (ret == 1) {
    set_state (0, 10);
    int rr;
    if (via) {
      copy_and_push_string (nm); push_number (0);
      svalue_t *r = call_O ("do_restore", 2);
      rr = r && r->type == T_NUMBER ? (int) r->u.number : -1;
    } else {
      char *heap = malloc (strlen (nm) + 1); strcpy (heap, nm);
      struct so_arg a = { heap, 0, -9 };
      rr = hx_guard (ro_fn, &a) ? -1 : a.ret;
      free (heap);
    }
    svalue_t *q = &O->variables[imarker];
    if (rr != 1 || !(q->type == T_NUMBER && q->u.number == 42)) fail ("restore-error", "restore_object(\"%s\") returned %d, marker %s", nm, rr, hx_canon_s (q));
  }
  vx_obs ("  save returned %d", ret);
  at_rest ("save_object/restore_object");
  vx_count (0, 1);
}

/* ------------------------------------------------------------------ mapkeys: mappings that fill and outgrow the table they
 * are restored into.  Integer keys 16*h hash to h (MAP_POINTER_HASH = x >> 4); the table for n pairs has 8 buckets up to
 * 8 pairs, 16 up to 15, 32 up to 31, and doubles when 80% of the buckets are in use.
 *   level 8 : every non-empty subset of the hashes 0..15 (65 535 mappings; up to 8 pairs use the 8-bucket table, more the
 *             16-bucket one), alone, inside an array and as a mapping value
 *   level 16: every choice of 12..15 of the 16 buckets, one pair per bucket, x which pairs carry the next hash bit
 *             {none, all, even, odd, only the j-th, all but the j-th}
 *   level 32: 25..31 of the 32 buckets (unused ones = start + j*step, step in {1,3,5,7,11}), same bit choices
 *   strings : n string keys, n = 1..40
 * Oracle: the round trip oracle (every key found by lookup). */
static int popcount16 (unsigned x) { int c = 0; while (x) { c += x & 1; x >>= 1; } return c; }
static unsigned L16_PAT[2600]; static int n_l16;
static unsigned L32_PAT[1200]; static int n_l32;
#define NBITV(k) (4 + 2 * (k))
static long l16_off[2601], l32_off[1201];
static void init_mapkeys (void) {
  for (unsigned p = 0; p < 65536; p++) { int c = popcount16 (p); if (c >= 12 && c <= 15) L16_PAT[n_l16++] = p; }
  static const int steps[] = { 1, 3, 5, 7, 11 };
  for (int u = 1; u <= 7; u++) for (int st = 0; st < 32; st++) for (int si = 0; si < 5; si++) {
    unsigned used = 0xffffffffu;
    for (int j = 0; j < u; j++) used &= ~(1u << ((st + j * steps[si]) & 31));
    L32_PAT[n_l32++] = used;
  }
  l16_off[0] = 0; for (int i = 0; i < n_l16; i++) l16_off[i + 1] = l16_off[i] + NBITV (popcount16 (L16_PAT[i]));
  l32_off[0] = 0; for (int i = 0; i < n_l32; i++) l32_off[i + 1] = l32_off[i] + NBITV (popcount16 (L32_PAT[i] & 0xffff) + popcount16 (L32_PAT[i] >> 16));
}
static int bit_variant (int v, int j, int k) {        /* does the j-th of k pairs carry the next hash bit in variant v? */
  if (v == 0) return 0; if (v == 1) return 1; if (v == 2) return !(j & 1); if (v == 3) return j & 1;
  v -= 4;
  if (v < k) return j == v;
  return j != v - k;
}
static svalue_t map_of_hashes (const int *h, int n) {
  svalue_t k[40], v[40];
  for (int i = 0; i < n; i++) { k[i] = V_int (16LL * h[i]); v[i] = V_int (h[i] + 1); }
  return V_map (n, k, v);
}
#define MK_L8 (65535L * 3)
#define MK_STR 40
static long mapkeys_total_values (void) { return MK_L8 + l16_off[n_l16] + l32_off[n_l32] + MK_STR; }
static svalue_t mapkeys_value (long i, char *what, size_t wl) {
  int h[40], n = 0;
  if (i < MK_L8) {
    int cx = (int) (i % 3); unsigned sub = (unsigned) (i / 3) + 1;
    for (int b = 0; b < 16; b++) if (sub & (1u << b)) h[n++] = b;
    svalue_t m = map_of_hashes (h, n), e[2], k[1];
    snprintf (what, wl, "hashes subset 0x%04x (%d pairs) %s", sub, n, cx == 0 ? "top level" : cx == 1 ? "in an array" : "as a mapping value");
    if (cx == 0) return m;
    if (cx == 1) { e[0] = V_int (1); e[1] = m; return V_arr (2, e); }
    k[0] = V_str ("k"); e[0] = m; return V_map (1, k, e);
  }
  i -= MK_L8;
  if (i < l16_off[n_l16]) {
    int p = 0; while (i >= l16_off[p + 1]) p++;
    int v = (int) (i - l16_off[p]), k = popcount16 (L16_PAT[p]);
    for (int b = 0, j = 0; b < 16; b++) if (L16_PAT[p] & (1u << b)) { h[n++] = b + (bit_variant (v, j, k) ? 16 : 0); j++; }
    snprintf (what, wl, "16-bucket table: buckets 0x%04x, bit-4 variant %d", L16_PAT[p], v);
    return map_of_hashes (h, n);
  }
  i -= l16_off[n_l16];
  if (i < l32_off[n_l32]) {
    int p = 0; while (i >= l32_off[p + 1]) p++;
    int v = (int) (i - l32_off[p]), k = popcount16 (L32_PAT[p] & 0xffff) + popcount16 (L32_PAT[p] >> 16);
    for (int b = 0, j = 0; b < 32; b++) if (L32_PAT[p] & (1u << b)) { h[n++] = b + (bit_variant (v, j, k) ? 32 : 0); j++; }
    snprintf (what, wl, "32-bucket table: buckets 0x%08x, bit-5 variant %d", L32_PAT[p], v);
    return map_of_hashes (h, n);
  }
  i -= l32_off[n_l32];
  {
    svalue_t k[40], v[40]; int ns = (int) i + 1;
    for (int j = 0; j < ns; j++) { char nm[16]; snprintf (nm, sizeof nm, "key%d", j); k[j] = V_str (nm); v[j] = V_int (j + 1); }
    snprintf (what, wl, "%d string keys", ns);
    return V_map (ns, k, v);
  }
}
#define MK_BLOCK 128
static void mapkeys_elem (long blk) {
  long tot = mapkeys_total_values (), from = blk * MK_BLOCK, to = from + MK_BLOCK;
  if (to > tot) to = tot;
  strcpy (ctx_key, "mapping-filling-its-table");
  for (long i = from; i < to; i++) {
    char what[120];
    svalue_t v = mapkeys_value (i, what, sizeof what);
    snprintf (desc_cur, sizeof desc_cur, "%s: %.300s", what, hx_canon_s (&v));
    if (i == from) vx_obs ("%s", desc_cur);
    char *text = roundtrip_variable (&v, 1);
    at_rest ("save_variable/restore_variable");
    if ((i & 63) == 0) { roundtrip_object (&v, 0, 1); at_rest ("save_object/restore_object"); }
    free (text);
    free_svalue (&v, "c16");
    vx_count (1, 1);
  }
  vx_count (0, 1);
}

/* ------------------------------------------------------------------ shapes: which variables of an inheritance tree are persistent
 * All inheritance shapes {chain of 1, 2, 3 links; two parents; diamond} x every link declared with each of
 * {"", static, private, static private} (4 + 16 + 64 + 16 + 256 = 356 objects); every program declares
 * int v_X, static int s_X, private int p_X, private static int q_X.  A variable is persistent iff it is not declared
 * static and no inherit statement on its path from the saved object is static.
 * Oracle: the save FILE names exactly the persistent variables (one line per persistent occurrence); after setting every
 * variable to 99 and restore_object() the static ones still hold 99 and the persistent ones (unique names) are back. */
static const char *IMOD[] = { "", "static ", "private ", "static private " };
typedef struct { char name[24]; int is_static; } xvar_t;
static xvar_t XV[64]; static int n_xv;
static void own_vars (const char *prog, int acc_static) {
  static const char *kind = "vspq";
  for (int i = 0; i < 4; i++) {
    snprintf (XV[n_xv].name, sizeof XV[n_xv].name, "%c_%s", kind[i], prog);
    XV[n_xv].is_static = acc_static || kind[i] == 's' || kind[i] == 'q';
    n_xv++;
  }
}
static void prog_text (char *out, size_t n, const char *self, const char *inh1, int m1, const char *inh2, int m2) {
  size_t k = 0;
  if (inh1) k += (size_t) snprintf (out + k, n - k, "%sinherit \"%s\";\n", IMOD[m1], inh1);
  if (inh2) k += (size_t) snprintf (out + k, n - k, "%sinherit \"%s\";\n", IMOD[m2], inh2);
  snprintf (out + k, n - k, "int v_%s = 11;\nstatic int s_%s = 12;\nprivate int p_%s = 13;\nprivate static int q_%s = 14;\nvoid create() { seteuid(getuid()); }\n", self, self, self, self);
}
#define ST(m) ((m) & 1)
static long shapes_total (void) { return 4 + 16 + 64 + 16 + 256; }
static void shapes_elem (long idx) {
  char text[600], desc[200];
  object_t *top = 0;
  int m[4] = { 0, 0, 0, 0 }, shape;
  n_xv = 0;
  if (idx < 4) { shape = 1; m[0] = (int) idx; }
  else if ((idx -= 4) < 16) { shape = 2; m[0] = (int) (idx / 4); m[1] = (int) (idx % 4); }
  else if ((idx -= 16) < 64) { shape = 3; m[0] = (int) (idx / 16); m[1] = (int) (idx / 4 % 4); m[2] = (int) (idx % 4); }
  else if ((idx -= 64) < 16) { shape = 4; m[0] = (int) (idx / 4); m[1] = (int) (idx % 4); }
  else { idx -= 16; shape = 5; m[0] = (int) (idx / 64); m[1] = (int) (idx / 16 % 4); m[2] = (int) (idx / 4 % 4); m[3] = (int) (idx % 4); }
  strcpy (ctx_key, "inheritance-shape");
  int ok = 1;
#define LOAD(NAME, I1, M1, I2, M2) do { prog_text (text, sizeof text, NAME, I1, M1, I2, M2); if (ok && !hx_load (NAME ".c", text)) { ok = 0; snprintf (desc_cur, sizeof desc_cur, "cannot compile %s: %.150s", NAME, hx_last_error); } } while (0)
  switch (shape) {
  case 1:       /* st -m0-> sb */
    snprintf (desc, sizeof desc, "st: %sinherit sb", IMOD[m[0]]);
    LOAD ("sb", 0, 0, 0, 0); LOAD ("st", "sb", m[0], 0, 0);
    own_vars ("sb", ST (m[0])); own_vars ("st", 0);
    break;
  case 2:       /* st -m0-> sm -m1-> sb */
    snprintf (desc, sizeof desc, "st: %sinherit sm; sm: %sinherit sb", IMOD[m[0]], IMOD[m[1]]);
    LOAD ("sb", 0, 0, 0, 0); LOAD ("sm", "sb", m[1], 0, 0); LOAD ("st", "sm", m[0], 0, 0);
    own_vars ("sb", ST (m[0]) | ST (m[1])); own_vars ("sm", ST (m[0])); own_vars ("st", 0);
    break;
  case 3:       /* st -m0-> sn -m1-> sm -m2-> sb */
    snprintf (desc, sizeof desc, "st: %sinherit sn; sn: %sinherit sm; sm: %sinherit sb", IMOD[m[0]], IMOD[m[1]], IMOD[m[2]]);
    LOAD ("sb", 0, 0, 0, 0); LOAD ("sm", "sb", m[2], 0, 0); LOAD ("sn", "sm", m[1], 0, 0); LOAD ("st", "sn", m[0], 0, 0);
    own_vars ("sb", ST (m[0]) | ST (m[1]) | ST (m[2])); own_vars ("sm", ST (m[0]) | ST (m[1])); own_vars ("sn", ST (m[0])); own_vars ("st", 0);
    break;
  case 4:       /* st -m0-> sb, st -m1-> sc */
    snprintf (desc, sizeof desc, "st: %sinherit sb; %sinherit sc", IMOD[m[0]], IMOD[m[1]]);
    LOAD ("sb", 0, 0, 0, 0); LOAD ("sc", 0, 0, 0, 0); LOAD ("st", "sb", m[0], "sc", m[1]);
    own_vars ("sb", ST (m[0])); own_vars ("sc", ST (m[1])); own_vars ("st", 0);
    break;
  default:      /* st -m0-> sl -m2-> sb, st -m1-> sr -m3-> sb */
    snprintf (desc, sizeof desc, "st: %sinherit sl; %sinherit sr; sl: %sinherit sb; sr: %sinherit sb", IMOD[m[0]], IMOD[m[1]], IMOD[m[2]], IMOD[m[3]]);
    LOAD ("sb", 0, 0, 0, 0); LOAD ("sl", "sb", m[2], 0, 0); LOAD ("sr", "sb", m[3], 0, 0); LOAD ("st", "sl", m[0], "sr", m[1]);
    own_vars ("sb", ST (m[0]) | ST (m[2])); own_vars ("sl", ST (m[0])); own_vars ("sb", ST (m[1]) | ST (m[3])); own_vars ("sr", ST (m[1])); own_vars ("st", 0);
    break;
  }
  if (ok) snprintf (desc_cur, sizeof desc_cur, "%s", desc);
  vx_obs ("%s", desc_cur);
  if (!ok || !(top = hx_find ("st"))) { fail ("HARNESS-shape-does-not-compile", "%s", hx_last_error); return; }
  if (top->prog->num_variables_total != n_xv) { fail ("HARNESS-variable-count", "object has %d variables, the shape says %d", top->prog->num_variables_total, n_xv); return; }
  /* 1. the file */
  object_t *saveO = O; O = top;
  unlink ("sh.o");
  struct so_arg sa = { "sh", 1, -9 };
  if (hx_guard (so_fn, &sa) || sa.ret != 1) { fail ("save-error", "save_object: %d %s", sa.ret, hx_last_error); O = saveO; return; }
  size_t flen; char *file = fs_slurp ("sh.o", &flen);
  int in_file[64]; memset (in_file, 0, sizeof in_file);
  for (char *l = file ? strtok (file, "\n") : 0; l; l = strtok (0, "\n")) {
    if (*l == '#') continue;
    char *sp1 = strchr (l, ' '); if (!sp1) continue;
    *sp1 = 0;
    int placed = 0, known = 0;
    for (int i = 0; i < n_xv && !placed; i++) if (!strcmp (XV[i].name, l)) { known = 1; if (!XV[i].is_static && !in_file[i]) { in_file[i] = 1; placed = 1; } }
    if (!placed) fail ("static-variable-in-save-file", "the save file has a line for %s, which is %s (file written by save_object of: %s)", l, known ? "static here, by declaration or through a static inherit" : "no variable of the object", desc);
  }
  for (int i = 0; i < n_xv; i++) if (!XV[i].is_static && !in_file[i]) fail ("variable-missing-from-save-file", "no line for the persistent variable %s", XV[i].name);
  free (file);
  /* 2. the way back */
  for (int i = 0; i < n_xv; i++) { free_svalue (&top->variables[i], "c16"); top->variables[i] = V_int (99); }
  struct so_arg ra = { "sh", 0, -9 };
  if (hx_guard (ro_fn, &ra) || ra.ret != 1) fail ("restore-error", "restore_object: %d %s", ra.ret, hx_last_error);
  else for (int i = 0; i < n_xv; i++) {
    svalue_t *q = &top->variables[i];
    int dup = 0; for (int j = 0; j < n_xv; j++) if (j != i && !strcmp (XV[j].name, XV[i].name)) dup = 1;
    long want = XV[i].name[0] == 'v' ? 11 : XV[i].name[0] == 's' ? 12 : XV[i].name[0] == 'p' ? 13 : 14;
    if (XV[i].is_static) { if (!(q->type == T_NUMBER && q->u.number == 99)) fail ("static-variable-touched", "static variable %s (#%d) is %s after restore_object, it held 99", XV[i].name, i, hx_canon_s (q)); }
    else if (!dup && !(q->type == T_NUMBER && q->u.number == want)) fail ("value-changed", "persistent variable %s came back as %s, saved %ld", XV[i].name, hx_canon_s (q), want);
  }
  O = saveO;
  vx_count (0, 1);
  vx_count (1, n_xv);
}

/* ------------------------------------------------------------------ history: what one restore leaves behind for the next
 * Driver booted with MaxArraySize 8 / MaxMappingSize 8 so that a restore can be refused by error() in the middle of a
 * nested container.  All histories of length 2..3 over {restore of each of 9 texts through restore_variable,
 * restore_object, restore_object(,1); save_variable of a value}; oracle: every step's outcome (value or error) is the
 * outcome of the same step in a fresh process, whatever came before. */
#define HLIMIT 8
static const char *HTEXT[] = {
  "42",                                         /* valid scalar */
  "({1,2,})",                                   /* valid flat array */
  "({1,({2,3,}),([4:5,]),})",                   /* valid nested */
  "([1:2,])",                                   /* valid flat mapping */
  "({1,({0,0,0,0,0,0,0,0,0,}),})",              /* nested array of limit+1 */
  "({1,([1:1,2:1,3:1,4:1,5:1,6:1,7:1,8:1,9:1,]),})",   /* nested mapping of limit+1 */
  "({0,0,0,0,0,0,0,0,0,})",                     /* top-level array of limit+1 */
  "({1,({2,(x,}),})",                           /* damaged: refused in the middle of a container */
  "(/1,({2,}),/)",                              /* valid class with a nested array */
};
#define NHT (int) (sizeof HTEXT / sizeof HTEXT[0])
#define NHOP (NHT * 3 + 1)      /* text x route, + save_variable */
static const char *HROUTE[] = { "restore_variable", "restore_object", "restore_object-noclear" };
typedef struct { char out[NHOP][200]; } hbase_t;
static hbase_t *hbase;          /* outcome of each op in a fresh process (shared memory, filled at start-up) */

static void hist_step (int op, char *out, size_t n) {
  if (op == NHT * 3) {
    svalue_t e[2], in[1]; in[0] = V_int (2); e[0] = V_int (1); e[1] = V_arr (1, in);
    svalue_t v = V_arr (2, e);
    struct sv_arg s = { &v, 0, 0 };
    if (hx_guard (sv_fn, &s)) snprintf (out, n, "error: %.150s", hx_last_error);
    else { snprintf (out, n, "text %.150s", s.text); FREE_MSTR (s.text); }
    free_svalue (&v, "c16");
    return;
  }
  int t = op / 3, route = op % 3;
  if (route == 0) {
    char *work = strdup (HTEXT[t]);
    svalue_t r = V_int (0);
    struct rv_arg a = { &r, work, 0, 0 };
    if (hx_guard (rv_fn, &a)) snprintf (out, n, "error: %.150s", hx_last_error);
    else { snprintf (out, n, "value %.150s", hx_canon_s (&r)); free_svalue (&r, "c16"); }
    free (work);
  } else {
    char file[300]; snprintf (file, sizeof file, "#/c16/o.c\nmarker 9\nv %s\nbv 3\n", HTEXT[t]);
    set_var (iv, V_str (OLDSTR)); set_var (imarker, V_int (41)); set_var (ibv, V_str ("oldbv"));
    fs_spit ("hs.o", file, strlen (file));
    struct so_arg r = { "hs", route == 2, -9 };
    int err = hx_guard (ro_fn, &r);
    char e1[120] = ""; if (err) snprintf (e1, sizeof e1, "error: %.100s", hx_last_error); else snprintf (e1, sizeof e1, "returned %d", r.ret);
    snprintf (out, n, "%s; v=%.60s bv=%.20s", e1, hx_canon_s (&O->variables[iv]), hx_canon_s (&O->variables[ibv]));
  }
  for (char *c = out; *c; c++) if (*c == '\n') *c = ' ';
}
static const char *hop_name (int op, char *b, size_t n) {
  if (op == NHT * 3) snprintf (b, n, "save_variable(({1,({2})}))"); else snprintf (b, n, "%s %s", HROUTE[op % 3], HTEXT[op / 3]);
  return b;
}
static void init_hbase (void) {
  hbase = mmap (0, sizeof *hbase, PROT_READ | PROT_WRITE, MAP_SHARED | MAP_ANONYMOUS, -1, 0);
  char dir[PATH_MAX]; snprintf (dir, sizeof dir, "%s/hb", scratch_base); mkdir (dir, 0755);
  for (int op = 0; op < NHOP; op++) {
    fflush (0);
    pid_t pid = fork ();
    if (pid == 0) { if (chdir (dir)) {} hist_step (op, hbase->out[op], sizeof hbase->out[op]); __real__exit (0); }
    int st; while (waitpid (pid, &st, 0) == -1 && errno == EINTR) ;
    if (!hbase->out[op][0]) snprintf (hbase->out[op], sizeof hbase->out[op], "(process died)");
  }
}
static long hist_total (void) { return (long) NHOP * NHOP + (long) NHOP * NHOP * NHOP; }
static int hist_decode (long idx, int *ops) {
  if (idx < (long) NHOP * NHOP) { ops[0] = (int) (idx / NHOP); ops[1] = (int) (idx % NHOP); return 2; }
  idx -= (long) NHOP * NHOP;
  ops[0] = (int) (idx / (NHOP * NHOP)); ops[1] = (int) (idx / NHOP % NHOP); ops[2] = (int) (idx % NHOP);
  return 3;
}
static void hist_elem (long idx) {
  int ops[3], n = hist_decode (idx, ops);
  char out[200], nm[3][160];
  safe_apply_master_ob ("clear_errors", 0);
  for (int i = 0; i < n; i++) hop_name (ops[i], nm[i], sizeof nm[i]);
  for (int i = 0; i < n; i++) {
    hist_step (ops[i], out, sizeof out);
    vx_obs ("  step %d %s -> %s", i, nm[i], out);
    if (selftest == 4 && i == 1) strcat (out, "!");       /* self-test: the model expects something else */
    if (strcmp (out, hbase->out[ops[i]])) {
      snprintf (ctx_key, sizeof ctx_key, "history:%s", ops[i] == NHT * 3 ? "save_variable" : HROUTE[ops[i] % 3]);
      snprintf (desc_cur, sizeof desc_cur, "history [%s] [%s]%s%s%s", nm[0], nm[1], n == 3 ? " [" : "", n == 3 ? nm[2] : "", n == 3 ? "]" : "");
      fail (strncmp (hbase->out[ops[i]], "error", 5) && strncmp (hbase->out[ops[i]], "returned", 8) && !strncmp (out, "error", 5) ? "valid-text-refused-after-earlier-error" : "outcome-depends-on-what-ran-before",
            "step %d gives \"%s\", in a fresh process it gives \"%s\"", i, out, hbase->out[ops[i]]);
      break;
    }
  }
  vx_count (0, 1);
  vx_count (1, n);
}

/* ------------------------------------------------------------------ dispatch */
static void elem_body (long idx);
static void describe (long idx, char *buf, size_t len);
/* after the first memory error nothing that follows in that process means anything (and what follows depends on
   what the wild access happened to hit): the report has been printed, end the element's process there.  On a tree
   without memory errors this never runs. */
extern void __asan_set_error_report_callback (void (*cb) (const char *)) __attribute__ ((weak));
static void on_asan_report (const char *report) { (void) report; if (in_grandchild) { vx_count (7, 1); __real__exit (0); } }
/* every element runs in its own process: on a tree with memory errors in the restore code an element can corrupt
   the heap or the stack, and whatever ran next in the same process would depend on it */
static void elem (long idx) {
  ensure_root ();
  fflush (0);
  pid_t pid = fork ();
  if (pid < 0) { vx_fail ("HARNESS:fork", "fork failed"); return; }
  if (pid == 0) {
    in_grandchild = 1;
    elem_body (idx);
    fflush (0);
    __real__exit (0);
  }
  int status = 0;
  while (waitpid (pid, &status, 0) == -1 && errno == EINTR) ;
  if (!(WIFEXITED (status) && WEXITSTATUS (status) == 0)) {
    vx_scan_now ();             /* a fatal sanitizer report names the place; otherwise say that it died */
    char d[300]; describe (idx, d, sizeof d);
    if (WIFSIGNALED (status)) vx_fail ("died:signal:element", "process died with signal %d: %s", WTERMSIG (status), d);
    else vx_fail ("died:exit:element", "process exited with %d: %s", WEXITSTATUS (status), d);
  }
}
static void elem_body (long idx) {
  hx_last_error[0] = 0;
  if (!strcmp (part, "leaves")) leaves_elem (idx);
  else if (!strcmp (part, "struct")) struct_elem (idx);
  else if (!strcmp (part, "chain")) chain_elem (idx);
  else if (!strcmp (part, "names")) names_elem (idx);
  else if (!strcmp (part, "history")) hist_elem (idx);
  else if (!strcmp (part, "mapkeys")) mapkeys_elem (idx);
  else if (!strcmp (part, "shapes")) shapes_elem (idx);
  else if (!strcmp (part, "damage")) damage_elem (idx);
  else if (!strcmp (part, "strings")) strings_elem (idx);
  else if (!strcmp (part, "crash")) { if (idx < crash_total () - NTORN) crash_elem (idx); else torn_elem (idx - (crash_total () - NTORN)); }
  if (selftest == 1 && !strcmp (part, "leaves") && idx == 5) {    /* self-test: the model expects another value */
    svalue_t a = V_int (1), b = V_int (2);
    strcpy (ctx_key, "selftest");
    if (!deq (&a, &b, 0)) fail ("value-changed", "%s", why);
  }
  if (selftest == 3 && !strcmp (part, "strings") && idx == 3) { save_svalue_depth = 1; strcpy (ctx_key, "selftest"); at_rest ("self-test"); save_svalue_depth = 0; }
}
static void describe (long idx, char *buf, size_t len) {
  if (!strcmp (part, "leaves")) {
    int cx = (int) (idx % NCX); const leaf_t *l = &LEAF[idx / NCX];
    svalue_t v = in_context (l, cx);
    snprintf (buf, len, "leaf class %s in context %s: %.300s", l->cls, CXNAME[cx], hx_canon_s (&v));
  } else if (!strcmp (part, "struct")) {
    snprintf (buf, len, "values #%ld..#%ld of the depth-%d grammar", idx * STRUCT_BLOCK, idx * STRUCT_BLOCK + STRUCT_BLOCK - 1, DEPTH);
  } else if (!strcmp (part, "damage")) {
    char m[512], what[80]; long ntt = text_off[ntext];
    if (idx < ntt * 3) {
      int mode = (int) (idx % 3); idx /= 3;
      int t = 0; while (idx >= text_off[t + 1]) t++;
      if (!mutate (TEXT[t], idx - text_off[t], SYMS, NSYM, m, what, sizeof what)) { snprintf (buf, len, "(identity substitution, skipped)"); return; }
      snprintf (buf, len, "%s of the text %s (saved form %.100s, %s)", mode == 0 ? "restore_variable" : mode == 1 ? "restore_object" : "restore_object(,1)", m, TEXT[t], what);
    } else {
      idx -= ntt * 3; int nc = (int) (idx % 2); idx /= 2;
      int f = 0; while (idx >= file_off[f + 1]) f++;
      if (!mutate (FILES[f], idx - file_off[f], FSYMS, NFSYM, m, what, sizeof what)) { snprintf (buf, len, "(identity substitution, skipped)"); return; }
      snprintf (buf, len, "restore_object(,%d) of save file #%d with %s: %.300s", nc, f, what, m);
    }
  } else if (!strcmp (part, "strings")) {
    int L = 0; long i = idx;
    for (;; L++) { long c = pw (NS, L > 2 ? L - 2 : 0); if (i < c) break; i -= c; }
    char pre[16]; int np = L > 2 ? L - 2 : 0;
    for (int k = np - 1; k >= 0; k--) { pre[k] = SSYMS[i % NS]; i /= NS; }
    pre[np] = 0;
    snprintf (buf, len, "restore_svalue/safe_restore_svalue of every string of length %d over %s starting with '%s'", L, SSYMS, pre);
  } else if (!strcmp (part, "chain")) {
    snprintf (buf, len, "%d nested containers of kind %s (limit %d)", CHAIN_N[idx % NCHAIN_N], CHAIN_KIND[idx / NCHAIN_N], MAX_SAVE_SVALUE_DEPTH);
  } else if (!strcmp (part, "shapes")) {
    snprintf (buf, len, "inheritance shape #%ld (chain1 0..3, chain2 4..19, chain3 20..83, two parents 84..99, diamond 100..355; modifiers base 4: none, static, private, static private)", idx);
  } else if (!strcmp (part, "mapkeys")) {
    snprintf (buf, len, "table-filling mappings #%ld..#%ld", idx * MK_BLOCK, idx * MK_BLOCK + MK_BLOCK - 1);
  } else if (!strcmp (part, "history")) {
    int ops[3], n = hist_decode (idx, ops); char nm[160]; size_t k = 0;
    k += (size_t) snprintf (buf + k, len - k, "MaxArraySize/MaxMappingSize %d; history:", HLIMIT);
    for (int i = 0; i < n && k < len; i++) k += (size_t) snprintf (buf + k, len - k, " [%s]", hop_name (ops[i], nm, sizeof nm));
  } else if (!strcmp (part, "names")) {
    snprintf (buf, len, "save_object/restore_object(\"%s\") %s", NAMES[idx / 2], idx % 2 ? "through the efuns" : "through the C entry points");
  } else if (!strcmp (part, "crash")) {
    long nc = crash_total () - NTORN;
    if (idx >= nc) snprintf (buf, len, "left-over temporary of %ld bytes", idx - nc);
    else {
      int zeros = (int) (idx % 2); idx /= 2; int pad = PADS[idx % NPAD]; idx /= NPAD; int mode = (int) (idx % 4); idx /= 4;
      snprintf (buf, len, "save_object over an existing file (pad %d, save_zeros %d): libc call #%ld %s", pad, zeros, idx,
                mode == 0 ? "crash before" : mode == 1 ? "crash after" : mode == 2 ? "fails with EIO" : "fails with ENOSPC");
    }
  } else snprintf (buf, len, "part %s element %ld", part, idx);
}

int main (int argc, char **argv) {
  char boot[PATH_MAX], src[PATH_MAX], dst[PATH_MAX];
  vx_init_args (argc, argv);
  part = vx_opt ("part", "leaves");
  NL = (int) vx_opt_long ("nl", 1);
  DEPTH = (int) vx_opt_long ("depth", 3);
  SLEN = (int) vx_opt_long ("slen", 5);
  NTEXTS = (int) vx_opt_long ("ntexts", MAXTEXT_DEFAULT);
  OBJRT = (int) vx_opt_long ("objrt", 1);
  selftest = (int) vx_opt_long ("selftest", 0);
  if (NL < 1) NL = 1; if (NL > 2) NL = 2;
  if (DEPTH < 1) DEPTH = 1; if (DEPTH > 3) DEPTH = 3;
  if (SLEN > 7) SLEN = 7;
  scratch_base = fs_scratch_base ();
  snprintf (boot, sizeof boot, "%s/boot", scratch_base);
  mkdir (boot, 0755);
  static const char *copy[] = { "master.c", "simul_efun.c", "user.c", "c16", 0 };
  for (int i = 0; copy[i]; i++) {
    snprintf (src, sizeof src, "%s/mudlib/base/%s", hx_verif_dir (), copy[i]);
    snprintf (dst, sizeof dst, "%s/%s", boot, copy[i]);
    if (fs_copy_tree (src, dst)) { fprintf (stderr, "cannot copy %s\n", src); return 2; }
  }
  hx_boot (boot, !strcmp (part, "history") ? "MaxArraySize 8\nMaxMappingSize 8\n" : "", 0);
  vx_count_name (0, "elements_done");
  vx_count_name (1, "values_or_texts");
  vx_count_name (2, "restores_refused");
  vx_count_name (3, "restores_accepted");
  vx_count_name (4, "crash_points");
  vx_count_name (5, "failing_calls");
  vx_count_name (6, "size_table_retained");
  vx_count_name (7, "elements_ended_by_memory_error");
  O = hx_load ("/c16/o", 0);
  if (!O) { fprintf (stderr, "cannot load /c16/o: %s\n", hx_last_error); return 2; }
  add_ref (O, "harness");
  OTHER = hx_load ("/user", 0);
  if (!OTHER) { fprintf (stderr, "cannot load /user\n"); return 2; }
  add_ref (OTHER, "harness");
  {
    unsigned short t;
    iv = find_global_variable (O->prog, "v", &t); isv = find_global_variable (O->prog, "sv", &t);
    iov = find_global_variable (O->prog, "ov", &t); imarker = find_global_variable (O->prog, "marker", &t);
    ipad = find_global_variable (O->prog, "pad", &t); ibv = find_global_variable (O->prog, "bv", &t);
    ibsv = find_global_variable (O->prog, "bsv", &t);
    if (iv < 0 || isv < 0 || iov < 0 || imarker < 0 || ipad < 0 || ibv < 0 || ibsv < 0) { fprintf (stderr, "variables missing\n"); return 2; }
  }
  init_leaves ();
  init_counts ();
  init_texts ();
  long total;
  if (!strcmp (part, "leaves")) total = (long) nleaf * NCX;
  else if (!strcmp (part, "struct")) total = (cntV[DEPTH] + STRUCT_BLOCK - 1) / STRUCT_BLOCK;
  else if (!strcmp (part, "chain")) total = NCHAIN_N * 5;
  else if (!strcmp (part, "names")) total = NNAMES * 2;
  else if (!strcmp (part, "history")) { init_hbase (); total = hist_total (); }
  else if (!strcmp (part, "shapes")) total = shapes_total ();
  else if (!strcmp (part, "mapkeys")) { init_mapkeys (); total = (mapkeys_total_values () + MK_BLOCK - 1) / MK_BLOCK; }
  else if (!strcmp (part, "damage")) total = damage_total ();
  else if (!strcmp (part, "strings")) total = strings_total ();
  else if (!strcmp (part, "crash")) total = crash_total ();
  else { fprintf (stderr, "unknown --part\n"); return 2; }
  if (__asan_set_error_report_callback) __asan_set_error_report_callback (on_asan_report);
  vx_set_enum (total, elem, describe);
  return vx_run (argc, argv, 0);
}
