/* throw-away probe of env/net.c: connect, send "hello\r\nwor" + "ld\r\n", print what the user got */
#include "hx.h"
#include "net.h"
#include "src/comm.h"
static int step; static env_cli *c;
static int hook (io_event_t *ev, int max, struct timeval *tmo) {
  int n = 0;
  switch (step++) {
  case 0: c = env_connect (0); return env_ev_listen (ev, 0, 0);
  case 1: env_client_send (c, "hello\r\nwor", 10); return env_ev_cli (ev, 0, c, EVENT_READ);
  case 2: env_client_send (c, "ld\r\n", 4); return env_ev_cli (ev, 0, c, EVENT_READ);
  case 3: env_tick (1); return 0;
  case 4: case 5: return 0;
  default: env_shutdown (); return 0;
  }
}
static void body (void) {
  env_wait_hook = hook;
  backend ();
  vx_obs ("out=%d bytes", (int) c->out_len);
  for (int i = 1; i < max_users; i++) if (all_users[i]) vx_obs ("user %d: %s", i, hx_canon_s (&all_users[i]->ob->variables[0]));
}
int main (int argc, char **argv) {
  char mud[PATH_MAX];
  vx_init_args (argc, argv);
  snprintf (mud, sizeof mud, "%s/mudlib/base", hx_verif_dir ());
  hx_boot (mud, "Port 4000:telnet\n", 0);
  push_constant_string ("user_file"); push_constant_string ("/net/user.c");
  safe_apply_master_ob ("set_policy", 2);
  return vx_run (argc, argv, body);
}
