/* C12 — buffered commands are served fairly: one per user per cycle, nobody starves (DESIGN §3 C12).
 *
 * The real backend() runs on the scripted runtime (env/net.c).  One execution = one arrangement:
 *   console user or not  x  which of three network users stay connected (gaps in all_users[])  x  per live user a queue
 *   script (0-3 complete lines, optional partial line, one chunk or one line per cycle)  x  [deviations: single-char
 *   mode per user, one special first line ("m": a verb that calls command() three times, "q": the user destructs
 *   itself), one mid-cycle event (a new user connects in cycle c / a user hangs up in cycle c)].
 * The oracle is evaluated per cycle from the log the user objects write (cycle = one call of the wait hook).
 */
#include "h_netloop.h"

#define NU 5                    /* 0 console, 1..3 network users in connect order, 4 the user that connects mid-cycle */
typedef struct {
  int live;                     /* takes part in this execution */
  int console, cli;             /* env client index (network users) */
  int idx;                      /* logon order = index the LPC object logs */
  int connected;                /* model: has a connection right now */
  int cmode;                    /* single-char mode */
  int n, partial, spread;       /* queue script */
  int special;                  /* 0 none, 1 first line is "m", 2 first line is "q" */
  int nitem, served;            /* line mode: complete lines delivered so far / consumed (texts: item_text()) */
  int backlog, bl_cap;          /* long backlog: `backlog` numbered lines pasted in one write in cycle 1; recv() hands over <= bl_cap bytes per read (0 = no cap) */
  char pend[40];                /* char mode: bytes delivered and not yet consumed */
  int expect, got;              /* this cycle */
  char got_text[40];
  int subs;                     /* command()-issued sub commands logged right after "m" */
  int logged_on;
  int deadw;                    /* its socket never accepts output (EWOULDBLOCK) and answers EPIPE from cycle dead_cycle on */
  int joins;                    /* connects at all (users outside the layout connect and leave during the set-up) */
} muser;
static muser U[NU];
#define MAXSPECIAL 40
static const char letter[NU] = { 'k', 'a', 'b', 'c', 'n' };

static int w;                   /* wait-hook calls so far */
static int mid_kind, mid_user, mid_cycle;       /* 0 none, 1 connect, 2 hang-up, 3 peer vanishes with output pending (send: EWOULDBLOCK, then EPIPE) */
static long fl_word; static int full_flags, console_scripts = 6, full_backlog;
/* which deviation kinds are offered (--dev=mask): 1 single-char mode, 2 special m/q, 4 special i/g (flags word), 8 mid-cycle connect/hang-up,
 * 16 mid-cycle vanishing peer, 32 long backlog, 64 special e/x/j (a command that raises an uncaught error) */
static long dev = 127;
static int selftest, midcycles = 4, force_m;
static int shutdown_sent, drains, drain_limit = 6, bl_seen, cycle_error;
static int last_served = -1;    /* for the command()-inside-one-turn check */
static int cycle_no;            /* main cycle being evaluated (0 = set-up) */
static int cycles_evaluated;

static void fail_hist (const char *key, const char *fmt, ...) {
  char msg[500]; va_list ap; va_start (ap, fmt); vsnprintf (msg, sizeof msg, fmt, ap); va_end (ap);
  vx_fail (key, "%s", msg);
  vx_obs ("!! %s: %s", key, msg);
}

/* scripts: (n, partial, spread) without the redundant ones */
typedef struct { int n, partial, spread; } script;
static script scripts[16]; static int nscripts, nscripts_console;
static void build_scripts (void) {
  for (int n = 0; n <= 3; n++) for (int p = 0; p < 2; p++) for (int s = 0; s < 2; s++) {
    if (s && n + p < 2) continue;               /* nothing to spread */
    scripts[nscripts++] = (script) { n, p, s };
  }
}

/* ------------------------------------------------------------------ model */
static int has_complete (muser *u) { return u->cmode ? u->pend[0] != 0 : u->served < u->nitem; }

static void line_text (muser *u, int k, char *out) {   /* k = 1.. */
  int ui = (int) (u - U);
  if (k == 1 && u->special == 1 && !u->cmode) strcpy (out, "m");
  else if (k == 1 && u->special == 2 && !u->cmode) strcpy (out, "q");
  else if (k == 1 && u->special == 3 && !u->cmode) strcpy (out, "i");
  else if (k == 1 && u->special == 4 && !u->cmode) strcpy (out, "g");
  else if (k == 1 && u->special == 5 && !u->cmode) strcpy (out, "e");
  else if (k == 1 && u->special == 6 && !u->cmode) strcpy (out, "x");
  else if (k == 1 && u->special == 7 && !u->cmode) strcpy (out, "j");
  else sprintf (out, "%c%d", letter[ui], k);
}

/* text of the k-th (0..) complete line of user u, in the order sent */
static void item_text (muser *u, int k, char *out) {
  int ui = (int) (u - U);
  if (u->backlog) sprintf (out, "%c%03d", letter[ui], k);
  else if (ui == 4) strcpy (out, "n1");
  else line_text (u, k + 1, out);
}

/* bytes user u sends in main cycle c (1..5); appends to the model what becomes available */
static int arrivals (muser *u, int c, char *buf) {
  int len = 0;
  int ui = (int) (u - U);
  buf[0] = 0;
  if (ui == 4) {                /* the late user sends one line in the cycle after it connected */
    if (mid_kind == 1 && c == mid_cycle + 1) { strcpy (buf, "n1\r\n"); u->nitem++; return 4; }
    return 0;
  }
  if (u->backlog) {             /* the whole paste in one write; the driver reads it piecewise over the following cycles */
    if (c != 1) return 0;
    for (int k = 0; k < u->backlog; k++) len += sprintf (buf + len, "%c%03d\r\n", letter[ui], k);
    if (u->partial) len += sprintf (buf + len, "%cP", letter[ui]);
    u->nitem = u->backlog;
    return len;
  }
  for (int k = 1; k <= u->n + u->partial; k++) {
    int at = u->spread ? k : 1;
    if (at != c) continue;
    if (u->cmode) {             /* one character per "line"; a partial line is just one more character */
      char ch = (char) ('0' + k);
      buf[len++] = ch; buf[len] = 0;
      size_t l = strlen (u->pend); u->pend[l] = ch; u->pend[l + 1] = 0;
    } else if (k <= u->n) {
      char t[8]; line_text (u, k, t);
      len += sprintf (buf + len, "%s%s", t, u->console ? "\n" : "\r\n");
      u->nitem++;
    } else if (!u->console) {
      len += sprintf (buf + len, "%cP", letter[ui]);        /* never completed: must never be served */
    }
  }
  return len;
}

/* ------------------------------------------------------------------ log */
static int has_console;
/* logon order is fixed: the console user (inside backend(), before the first wait), the three clients, the late user */
static muser *by_idx (int idx) {
  int ui = has_console ? idx : idx + 1;
  return (ui >= 0 && ui < NU && (U[ui].joins)) ? &U[ui] : 0;
}

static void on_line (const char *l) {
  if (l[0] != '@' || l[1] != '@') return;
  char a[16] = "", t[40] = ""; int idx = -1;
  if (sscanf (l + 2, "%15s %d %39s", a, &idx, t) < 2) return;
  vx_obs ("  c%d %s", cycle_no, l + 2);
  if (!strcmp (a, "logon")) {
    muser *u = by_idx (idx);
    if (!u || u->logged_on) { fail_hist ("C12:harness-logon-order", "unexpected logon index %d", idx); return; }
    u->logged_on = 1; u->connected = 1;
    return;
  }
  muser *u = by_idx (idx);
  if (!u) { fail_hist ("C12:harness-unknown-user", "log line for unknown user index %d", idx); return; }
  int ui = (int) (u - U);
  if (!strcmp (a, "pi") || !strcmp (a, "gc") || !strcmp (a, "it")) {
    if (last_served >= 0 && U[last_served].subs != 0 && U[last_served].subs != 3)
      fail_hist ("C12:command-efun-limited", "user %c ran 'm' but only %d of its three command() calls were executed inside its turn", letter[last_served], U[last_served].subs);
    u->got++;
    snprintf (u->got_text, sizeof u->got_text, "%s", t);
    last_served = ui; u->subs = 0;
    if (!strcmp (t, "m") && !u->cmode) u->subs = -1;     /* expecting three subs next */
  } else if (!strcmp (a, "sub")) {
    if (last_served != ui) fail_hist ("C12:command-efun-outside-turn", "sub command of user %c ran while the turn belonged to %c", letter[ui], last_served >= 0 ? letter[last_served] : '-');
    if (u->subs < 0) u->subs = 0;
    u->subs++;
    char want[8]; sprintf (want, "s%d", u->subs);
    if (strcmp (want, t)) fail_hist ("C12:command-efun-order", "user %c: command() call %d logged %s", letter[ui], u->subs, t);
  } else if (!strcmp (a, "err")) {
    cycle_error = 1;            /* an uncaught error follows: the loop leaves this command phase by longjmp */
  } else if (!strcmp (a, "gone") || !strcmp (a, "netdead")) {
    u->connected = 0;
  }
}

static void end_cycle (void) {
  for (int i = 0; i < NU; i++) { U[i].got = 0; U[i].got_text[0] = 0; }
  last_served = -1; cycle_error = 0;
  nl_drain_log (on_line);
  if (last_served >= 0 && (U[last_served].subs == -1 || (U[last_served].subs > 0 && U[last_served].subs != 3)))
    fail_hist ("C12:command-efun-limited", "user %c ran 'm' but %d of its three command() calls were executed inside its turn", letter[last_served], U[last_served].subs < 0 ? 0 : U[last_served].subs);
  for (int i = 0; i < NU; i++) if (U[i].subs == -1 && i != last_served) { fail_hist ("C12:command-efun-limited", "user %c ran 'm' and none of its command() calls ran inside its turn", letter[i]); U[i].subs = 0; }
  if (!cycle_no) return;
  cycles_evaluated++;
  for (int i = 0; i < NU; i++) {
    muser *u = &U[i];
    if (!u->live) continue;
    if (u->got > 1)
      fail_hist ("C12:more-than-one-command-per-cycle", "user %c had %d buffered commands executed in cycle %d", letter[i], u->got, cycle_no);
    if (u->got >= 1) {
      if (u->cmode) {
        size_t l = strlen (u->got_text);
        if (!l || strncmp (u->pend, u->got_text, l))
          fail_hist ("C12:order-violated:char-mode", "user %c (single-char mode) was handed \"%s\" in cycle %d, pending bytes were \"%s\"", letter[i], u->got_text, cycle_no, u->pend);
        else memmove (u->pend, u->pend + l, strlen (u->pend + l) + 1);
      } else {
        char want[16] = "(none)";
        if (u->served < u->nitem) item_text (u, u->served, want);
        if (u->served >= u->nitem || strcmp (want, u->got_text))
          fail_hist (u->backlog ? "C12:order-violated:long-backlog" : "C12:order-violated", "user %c was handed \"%s\" in cycle %d, next complete line in its queue was \"%s\"", letter[i], u->got_text, cycle_no, want);
        if (u->served < u->nitem) u->served++;
      }
      vx_count (1, 1);
    }
    if (u->expect && !u->got && cycle_error) vx_count (4, 1);   /* put off to the next cycle by somebody's uncaught error (checked there) */
    else if (u->expect && !u->got)
      fail_hist (u->cmode ? "C12:user-with-command-not-served:char-mode" : "C12:user-with-command-not-served",
                 "user %c had a complete command buffered when the command phase of cycle %d started and was not served in that cycle", letter[i], cycle_no);
    u->expect = 0;
  }
}

/* ------------------------------------------------------------------ the environment's turn */
static int add_cli_event (io_event_t *ev, int n, env_cli *c, uint32_t type) {
  for (int i = 0; i < n; i++) if (ev[i].context == c->ctx && ev[i].fd == c->fd && c->ctx) { ev[i].event_type |= type; return n; }
  return env_ev_cli (ev, n, c, type);
}

static int hook (io_event_t *ev, int max, struct timeval *tmo) {
  (void) max;
  int n = 0;
  end_cycle ();
  /* a buffered complete command must keep the loop from blocking in the wait */
  for (int i = 0; i < NU; i++)
    if (U[i].live && U[i].connected && U[i].deadw != 2 && has_complete (&U[i]) && tmo && (tmo->tv_sec || tmo->tv_usec))
      fail_hist ("C12:loop-blocks-with-command-pending", "wait %d is entered with timeout %lds although user %c has a complete command buffered", w, (long) tmo->tv_sec, letter[i]);
  /* measured: did the long backlog reach the buffer-shift region (text_end beyond (MAX_TEXT-1) - 3*(MAX_TEXT/16), text_start > 0)? */
  for (int i = 1; i <= 3; i++) if (U[i].backlog && !bl_seen && all_users) {
    int sl = nl_slot_of_fd (env_clients[i - 1].fd);
    if (sl > 0 && all_users[sl]->text_start > 0 && (MAX_TEXT - (int) all_users[sl]->text_end - 1) / 3 < MAX_TEXT / 16) { bl_seen = 1; vx_count (3, 1); }
  }
  cycle_no = 0;
  if (w < 3) {                                  /* set-up: three clients connect, one per cycle */
    env_cli *c = env_connect (0);
    U[1 + w].cli = c->id;
    n = env_ev_listen (ev, n, 0);
  } else if (w == 3) {                          /* set-up: the users that are not part of the layout hang up */
    for (int i = 1; i <= 3; i++) if (!U[i].live) { env_cli *c = &env_clients[U[i].cli]; env_client_close (c); n = add_cli_event (ev, n, c, EVENT_CLOSE); U[i].connected = 0; }
  } else if (w <= 8) {                          /* main cycles 1..4 (+5: only the late user's line) */
    int c = w - 3;
    cycle_no = c;
    vx_obs ("cycle %d", c);
    for (int i = 0; i < NU; i++) {
      muser *u = &U[i];
      if (!u->live || !u->connected) continue;
      if (mid_kind == 2 && mid_user == i && mid_cycle == c) {
        env_cli *cl = &env_clients[u->cli];
        env_client_close (cl); n = add_cli_event (ev, n, cl, EVENT_CLOSE);
        u->connected = 0;
        vx_obs ("  user %c hangs up", letter[i]);
        continue;
      }
      if (mid_kind == 3 && mid_user == i && c >= mid_cycle) {
        if (u->deadw != 2) vx_obs ("  user %c's peer vanishes (send() answers EPIPE from now on, no event)", letter[i]);
        u->deadw = 2;             /* nothing more arrives from it; what is already buffered may still be run */
        continue;
      }
      static char buf[4096]; int len = c <= 5 ? arrivals (u, c, buf) : 0;
      if (!len) continue;
      vx_obs ("  user %c sends %d bytes", letter[i], len);
      if (u->console) {
        /* the console worker enqueues whole lines */
        char *p = buf;
        while (*p) { char *e = strchr (p, '\n'); char one[16]; size_t l = (size_t) (e - p) + 1; memcpy (one, p, l); one[l] = 0; env_console_line (one); p = e + 1; }
        n = env_ev_console (ev, n);
      } else {
        env_cli *cl = &env_clients[u->cli];
        if (!(selftest == 1 && i == 1 && c == 1)) env_client_send (cl, buf, (size_t) len);
        n = add_cli_event (ev, n, cl, EVENT_READ);
      }
    }
    if (mid_kind == 1 && mid_cycle == c) { env_cli *cl = env_connect (0); U[4].cli = cl->id; U[4].live = 1; U[4].joins = 1; n = env_ev_listen (ev, n, 0); vx_obs ("  a new user connects"); }
  } else {                                      /* drain: quiet cycles until every queue is empty */
    int pending = 0;
    for (int i = 0; i < NU; i++) if (U[i].live && U[i].connected && U[i].deadw != 2 && has_complete (&U[i])) pending = 1;
    if (pending && drains < drain_limit) { drains++; cycle_no = 5 + drains; vx_obs ("cycle %d (quiet)", cycle_no); }
    else {
      for (int i = 0; i < NU; i++) if (U[i].live && U[i].connected && U[i].deadw != 2 && has_complete (&U[i]))
        fail_hist ("C12:command-never-served", "user %c still has a complete command buffered after %d quiet cycles", letter[i], drains);
      shutdown_sent = 1; env_shutdown ();
      w++;
      return 0;
    }
  }
  /* who must be served in the command phase that follows this wait */
  if (cycle_no) for (int i = 0; i < NU; i++) U[i].expect = U[i].live && U[i].connected && U[i].logged_on && has_complete (&U[i]) && !(U[i].deadw == 2);
  for (int i = 0; i < ENV_MAXCLI; i++) {
    env_cli *c = &env_clients[i];
    if (nl_client_live (c) && c->registered && c->accepted && c->in_pos < c->in_len && !c->peer_closed) n = add_cli_event (ev, n, c, EVENT_READ);   /* unread bytes: readable (level-triggered) */
    if (mid_kind == 3 && i == mid_user - 1) continue;           /* never writable */
    if (nl_client_live (c) && c->registered && (c->interest & EVENT_WRITE) && !c->peer_closed) n = add_cli_event (ev, n, c, EVENT_WRITE);
  }
  w++;
  return n;
}

/* the user of deviation 3: output stays pending (EWOULDBLOCK) until its peer vanishes, then EPIPE */
static long send_hook (env_cli *c, const void *buf, size_t len) {
  (void) buf;
  if (mid_kind == 3 && c->id == mid_user - 1)      /* client ids equal the connect order: user 1..3 is client 0..2 */
    return U[mid_user].deadw == 2 ? -EPIPE : -EWOULDBLOCK;
  return (long) len;
}

/* the backlog user's socket hands over at most bl_cap bytes per read */
static long recv_hook (env_cli *c, size_t avail, size_t want) {
  size_t n = avail < want ? avail : want;
  for (int i = 1; i <= 3; i++) if (U[i].backlog && U[i].bl_cap && c->id == i - 1 && n > (size_t) U[i].bl_cap) n = (size_t) U[i].bl_cap;
  if (!avail) return c->peer_closed ? 0 : -EWOULDBLOCK;
  return (long) n;
}

static void body (void) {
  int console = vx_choose_free (2, "console");
  int keep = vx_choose_free (8, "keep");
  memset (U, 0, sizeof U);
  U[0].live = console; U[0].console = 1;
  for (int i = 1; i <= 3; i++) U[i].live = (keep >> (i - 1)) & 1;
  int nlive_net = 0;
  for (int i = 0; i <= 3; i++) {
    if (!U[i].live) continue;
    char lab[28]; snprintf (lab, sizeof lab, "script_%c", letter[i]);
    int s;
    if (i == 0) {               /* console lines are always whole lines */
      int list[16], nl = 0;
      for (int k = 0; k < nscripts; k++) {
        if (scripts[k].partial) continue;
        /* --console-scripts=3 (quick tier): no line / two lines, one per cycle / three lines in one chunk */
        if (console_scripts == 3 && !((scripts[k].n == 0) || (scripts[k].n == 2 && scripts[k].spread) || (scripts[k].n == 3 && !scripts[k].spread))) continue;
        list[nl++] = k;
      }
      s = list[vx_choose_free (nl, lab)];
    } else { s = vx_choose_free (nscripts, lab); nlive_net++; }
    U[i].n = scripts[s].n; U[i].partial = scripts[s].partial; U[i].spread = scripts[s].spread;
  }
  for (int i = 1; i <= 3; i++) if (U[i].live) { char lab[28]; snprintf (lab, sizeof lab, "cmode_%c", letter[i]); U[i].cmode = (dev & 1) ? vx_choose (2, lab) : 0; }
  {
    int list[MAXSPECIAL], kind[MAXSPECIAL], nl = 0;
    list[nl] = -1; kind[nl++] = 0;
    for (int i = 0; i <= 3; i++) if ((dev & 2) && U[i].live && U[i].n >= 1 && !U[i].cmode) { list[nl] = i; kind[nl++] = 1; }
    for (int i = 1; i <= 3; i++) if ((dev & 2) && U[i].live && U[i].n >= 1 && !U[i].cmode) { list[nl] = i; kind[nl++] = 2; }
    /* `i` / `g`: the first line's handler calls input_to(fn, F) / get_char(fn, F) while the same user has further lines
     * typed ahead; offered for the first such user of the arrangement (every user is "the first" in some layout) */
    int fu = -1;
    for (int i = 0; i <= 3 && fu < 0; i++) if ((dev & 4) && U[i].live && U[i].n >= 2 && !U[i].cmode) fu = i;
    static const long FW[] = { 0x1000, 0x7fffffff, 0x80, 0, 1, 2, 4, 0x10, 0x20, 0x40, 0x100, 0x400, 0x800 };
    int first_flag = nl, nit = full_flags ? 13 : 3, ngc = full_flags ? 13 : 1;
    if (fu >= 0) {
      for (int k = 0; k < nit; k++) { list[nl] = fu; kind[nl++] = 3; }
      for (int k = 0; k < ngc; k++) { list[nl] = fu; kind[nl++] = 4; }
    }
    /* `e` / `x` / `j`: the first line raises an uncaught error in process_input / in its verb / in the input_to callback that gets
     * the second line, with further lines queued behind (dev bit 64); first eligible user */
    int eu = -1, ju = -1;
    for (int i = 0; i <= 3 && eu < 0; i++) if ((dev & 64) && U[i].live && U[i].n >= 2 && !U[i].cmode) eu = i;
    for (int i = 0; i <= 3 && ju < 0; i++) if ((dev & 64) && U[i].live && U[i].n >= 3 && !U[i].cmode) ju = i;
    int first_err = nl;
    if (eu >= 0) { list[nl] = eu; kind[nl++] = 5; list[nl] = eu; kind[nl++] = 6; }
    if (ju >= 0) { list[nl] = ju; kind[nl++] = 7; }
    int c = vx_choose (nl, "special");
    if (c >= first_flag && c < first_err) fl_word = FW[kind[c] == 3 ? c - first_flag : c - first_flag - nit];
    if (!c && force_m && nl > 1) c = 1;        /* self-test only: the first candidate's first line is `m` without costing a deviation */
    if (c) U[list[c]].special = kind[c];
  }
  {
    int mk[40], mu[40], mc[40], nl = 0;
    mk[nl] = 0; mu[nl] = 0; mc[nl++] = 0;
    for (int c = 1; c <= midcycles && (dev & 8); c++) { mk[nl] = 1; mu[nl] = 4; mc[nl++] = c; }
    for (int i = 1; i <= 3; i++) if (U[i].live && (dev & 8)) for (int c = 1; c <= midcycles; c++) { mk[nl] = 2; mu[nl] = i; mc[nl++] = c; }
    for (int i = 1; i <= 3; i++) if (U[i].live && (dev & 16)) for (int c = 1; c <= midcycles; c++) { mk[nl] = 3; mu[nl] = i; mc[nl++] = c; }
    int c = vx_choose (nl, "mid");
    mid_kind = mk[c]; mid_user = mu[c]; mid_cycle = mc[c];
  }
  {
    /* long backlog: one line-mode network user pastes `B` numbered lines (6 bytes each on the wire, 7 in the input buffer)
     * in one write: more than the buffer-shift threshold (text_end > 1663) and than MAX_TEXT (2048) for B = 300.  Offered for
     * the first eligible user of the arrangement (all_backlog: for every one). */
    static const int VB[] = { 300, 300, 300, 300, 120, 120, 120, 120 }, VP[] = { 1, 0, 0, 1, 1, 0, 0, 1 }, VC[] = { 0, 97, 0, 97, 0, 97, 0, 97 };
    int bu[32], bv[32], nl = 1, nvar = full_backlog ? 8 : 2;
    for (int i = 1; i <= 3; i++) {
      if (!(dev & 32)) break;
      if (!U[i].live || U[i].cmode || U[i].special || (mid_kind >= 2 && mid_user == i)) continue;
      /* the paste replaces the user's own script: offer it once, from the empty script (no duplicates) */
      if (U[i].n || U[i].partial) { if (full_backlog) continue; else break; }
      /* default: the other users have single commands (0 or 1 complete line); --full-backlog=1: any script */
      int others_ok = 1;
      for (int j = 0; j <= 3; j++) if (j != i && U[j].live && (U[j].n > 1 || U[j].partial)) others_ok = 0;
      if (!full_backlog && !others_ok) break;
      for (int v = 0; v < nvar; v++) { bu[nl] = i; bv[nl++] = v; }
      if (!full_backlog) break;
    }
    int c = vx_choose (nl, "backlog");
    if (c) { muser *u = &U[bu[c]]; u->backlog = VB[bv[c]]; u->partial = VP[bv[c]]; u->bl_cap = VC[bv[c]]; u->n = 0; u->spread = 0; drain_limit = 6 + u->backlog + 8; }
  }
  /* modes in logon order: console (if any) first, then the three clients, then the late user */
  has_console = console;
  U[0].joins = console;
  for (int i = 1; i <= 3; i++) U[i].joins = 1;
  object_t *po = find_object_by_name ("/c12/plan");
  for (int i = 1; i <= 3; i++) { push_number (console + i - 1); push_number (U[i].live ? U[i].cmode : 0); hx_apply (po, "set_mode", 2); }
  if (selftest == 2) { push_number (2); hx_apply (po, "set_st", 1); }
  push_number (fl_word); hx_apply (po, "set_fl", 1);
  vx_obs ("console=%d keep=%d mid=%d/%c/%d flags=0x%lx", console, keep, mid_kind, letter[mid_user], mid_cycle, fl_word);
  for (int i = 0; i <= 3; i++) if (U[i].live) vx_obs ("  user %c: n=%d partial=%d spread=%d cmode=%d special=%d backlog=%d cap=%d", letter[i], U[i].n, U[i].partial, U[i].spread, U[i].cmode, U[i].special, U[i].backlog, U[i].bl_cap);
  MAIN_OPTION (console_mode) = console;
  env_isatty_value = 1;
  env_console_capture = 1;
  env_wait_hook = hook;
  env_send_hook = send_hook;
  env_recv_hook = recv_hook;
  nl_log_pos = lseek (2, 0, SEEK_END);
  backend ();
  if (!shutdown_sent) fail_hist ("C12:backend-returned-early", "backend() returned after %d waits", w);
  vx_count (0, 1);
  vx_count (2, cycles_evaluated);
}

int main (int argc, char **argv) {
  char mud[PATH_MAX];
  vx_init_args (argc, argv);
  selftest = (int) vx_opt_long ("selftest", 0);
  force_m = (int) vx_opt_long ("force-m", 0);
  console_scripts = (int) vx_opt_long ("console-scripts", 6);
  dev = vx_opt_long ("dev", 127);
  full_backlog = (int) vx_opt_long ("full-backlog", 0);  /* 1: 8 backlog variants for every eligible user; 0: 2 variants for the first one */
  full_flags = (int) vx_opt_long ("full-flags", 0);   /* 1: all 13 flag words for input_to and get_char; 0: {0x1000, 0x7fffffff, 0x80} / {0x1000} */
  midcycles = (int) vx_opt_long ("midcycles", 4);      /* mid-cycle connect / hang-up placed in cycles 1..midcycles */
  if (midcycles < 0) midcycles = 0;
  if (midcycles > 4) midcycles = 4;
  build_scripts ();
  snprintf (mud, sizeof mud, "%s/mudlib/base", hx_verif_dir ());
  hx_boot (mud, "Port 4000:telnet\n", 0);
  nl_policy_s ("user_file", "/c12/user.c");
  if (!hx_load ("/c12/plan.c", 0) || !hx_load ("/c12/user.c", 0)) { fprintf (stderr, "h_c12: cannot load mudlib objects: %s\n", hx_last_error); return 2; }
  nl_warm_symbolizer ();
  vx_count_name (0, "arrangements_completed");
  vx_count_name (1, "buffered_commands_served");
  vx_count_name (2, "cycles_evaluated");
  vx_count_name (3, "backlog_runs_in_shift_region");
  vx_count_name (4, "turns_put_off_by_an_uncaught_error");
  return vx_run (argc, argv, body);
}
