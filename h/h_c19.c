/* C19 — cross-thread notifications are never lost or merged; shutdown terminates.
 *
 * Bodies (DESIGN §3 C19) over the real lib/async + lib/port code:
 *   1 post    posters call async_runtime_post_completion / async_runtime_wakeup, main waits
 *   2 queue   two producers x 2 enqueues, one consumer, capacity 2, three overflow policies
 *   3 worker  create -> {signal_stop, join(t), join(-1), destroy} scripts x worker behaviours
 *   4 timer   platform_timer start / stop / restart / cleanup
 *   5 console real console worker reading a pipe on fd 0, main drains as process_io() does
 *   6 pileup  posts pile up beyond the (small, harness-chosen) capacity of the notification pipe while
 *             nobody waits; then stop + join of the posting worker / stop of the posting timer; then drain
 *   7 event   platform_event_t: two waiters (timed / infinite) on one event, set() once
 *   8 workers two workers alive at once, each polling async_worker_should_stop(async_worker_current());
 *             stop + join each of them, in each order
 *   9 abba    scheduler self-test: lock-order inversion that needs one preemption
 *
 * Two builds of this file:
 *   scheduler build (default): linked with sched/sched.c; every execution is one schedule chosen
 *     by vx (stateless DFS, preemption bound = --budget);
 *   free-running build (-DC19_FREE, ThreadSanitizer profile): no scheduler; vx --enum runs each
 *     (body, variant) element `--iters` times and turns ThreadSanitizer reports into finding keys.
 */
#include "vx.h"
#include "vsched.h"
#include "async/async_runtime.h"
#include "async/async_queue.h"
#include "async/async_worker.h"
#include "async/console_worker.h"
#include "port/timer.h"
#include "port/sync.h"
#include "logger/logger.h"
#include <errno.h>
#include <fcntl.h>
#include <pthread.h>
#include <stdarg.h>
#include <stdio.h>
#include <stdlib.h>
#include <string.h>
#include <sys/ioctl.h>
#include <time.h>
#include <unistd.h>

#ifdef C19_FREE
#define SCHED 0
static void fr_begin (const sched_cfg *c) { (void) c; }
static void fr_end (void) { }
#define sched_begin fr_begin
#define sched_end fr_end
#define sched_finished(t) 1
#define sched_track_fd(fd) ((void) 0)
#define sched_point(l) ((void) 0)
#define sched_steps() 0L
#define sched_pending(t) "?"
#define vx_obs(...) ((void) 0)          /* observations of a free run are timing dependent */
#else
#define SCHED 1
#endif

static int g_body, g_selftest, g_waits, g_variant;
static long g_pipe_cap;         /* logical capacity (bytes) of pipes created inside the next scheduler session, 0 = kernel's */
static unsigned g_vmask;
static const char *g_bodyname = "?";
static const char *volatile g_call = "-";       /* API call the main thread is inside (for stuck reports) */

/* In the free-running build the ordering oracles are NOT the deciding step (timing dependent, not
 * replayable): they are only counted; findings of that build are ThreadSanitizer reports. */
static void failf (const char *key, const char *fmt, ...) {
  char msg[560]; va_list ap; va_start (ap, fmt); vsnprintf (msg, sizeof msg, fmt, ap); va_end (ap);
#if SCHED
  vx_fail (key, "%s", msg);
  vx_obs ("!! %s: %s", key, msg);
#else
  (void) key; vx_count (6, 1);
#endif
}

static void on_stuck (int kind, const char *desc) {
  char key[160];
  if (kind == SCHED_STEP_LIMIT) snprintf (key, sizeof key, "C19:harness:step-limit:%s", g_bodyname);
  else snprintf (key, sizeof key, "C19:%s:%s:main-in-%s", g_bodyname, kind == SCHED_DEADLOCK ? "deadlock" : "hang", g_call);
  vx_fail (key, "variant %d: %s", g_variant, desc);
}

/* free-running build only: a body that is natively stuck ends its element (after collecting the
 * ThreadSanitizer reports made so far); ordering verdicts come from the scheduler build */
static void free_abort (void);
static void msleep (int ms) { struct timespec ts = { 0, ms * 1000000L }; nanosleep (&ts, 0); }

/* variant selection: a free choice in the scheduler build, the element index in the free-running build */
static int popcount_u (unsigned m) { int n = 0; for (; m; m &= m - 1) n++; return n; }
static int choose_variant (int nvar) {
  unsigned mask = g_vmask & ((1u << nvar) - 1);
  if (!mask) mask = (1u << nvar) - 1;
  int n = popcount_u (mask), c;
#if SCHED
  c = n > 1 ? vx_choose_free (n, "variant") : 0;
#else
  c = g_variant % n;
#endif
  for (int v = 0; v < nvar; v++) if (mask >> v & 1) { if (!c--) return v; }
  return 0;
}

static void begin (void) {
  sched_cfg cfg; memset (&cfg, 0, sizeof cfg);
  cfg.max_steps = (int) vx_opt_long ("max-steps", 700);
  cfg.trace = vx_replaying ();
  cfg.on_stuck = on_stuck;
  cfg.pipe_capacity = g_pipe_cap;
  g_call = "-";
  sched_begin (&cfg);
}

/* ====================================================================== body 1: post / wait */
#define KEY1 ((uintptr_t) CONSOLE_COMPLETION_KEY)
#define KEY2 ((uintptr_t) 0x51)
typedef struct { int n; struct { char kind; uintptr_t key, data; int rc; } op[3]; pthread_t th; } poster;
static poster PO[3];
static int nPO;
static async_runtime_t *rt;
static const char *post_specs[] = { "p5,p9,w", "p5p9,w", "w,w,p5", "p5,q7,w", "p5,p9", "w,w" };
#define NPOSTSPEC 6

static void *poster_fn (void *a) {
  poster *p = a;
  for (int i = 0; i < p->n; i++)
    p->op[i].rc = p->op[i].kind == 'w' ? async_runtime_wakeup (rt) : async_runtime_post_completion (rt, p->op[i].key, p->op[i].data);
  return 0;
}
static void parse_posts (const char *s) {
  nPO = 0; memset (PO, 0, sizeof PO);
  poster *p = &PO[nPO++];
  for (; *s; s++) {
    if (*s == ',') { p = &PO[nPO++]; continue; }
    if (*s == 'w') { p->op[p->n].kind = 'w'; p->op[p->n].key = 0; p->op[p->n].data = 1; p->n++; }
    else if (*s == 'p' || *s == 'q') { p->op[p->n].kind = 'p'; p->op[p->n].key = *s == 'p' ? KEY1 : KEY2; p->op[p->n].data = (uintptr_t) (s[1] - '0'); p->n++; s++; }
  }
}
typedef struct { uint64_t key, data; char kind; int used; } note;

static void body_post (void) {
  g_bodyname = "post";
  int v = choose_variant (NPOSTSPEC); g_variant = v;
  parse_posts (post_specs[v]);
  vx_obs ("post variant %d: %s; waits=%d", v, post_specs[v], g_waits);
  begin ();
  rt = async_runtime_init ();
  if (!rt) { failf ("C19:harness:runtime-init", "async_runtime_init failed"); return; }
  for (int i = 0; i < nPO; i++) pthread_create (&PO[i].th, 0, poster_fn, &PO[i]);
  note got[24]; int ngot = 0;
  io_event_t ev[8];
  for (int w = 0; w <= g_waits; w++) {
    struct timeval tv = { 0, SCHED ? 50000 : 1000 };
    if (w == g_waits) {       /* all posters are done: one last non-blocking drain */
      g_call = "pthread_join";
      for (int i = 0; i < nPO; i++) pthread_join (PO[i].th, 0);
      tv.tv_usec = 0;
    }
    g_call = "async_runtime_wait";
    int n = async_runtime_wait (rt, ev, 8, &tv);
    char line[300]; int k = snprintf (line, sizeof line, "wait#%d%s -> %d:", w, w == g_waits ? "(final)" : "", n);
    for (int i = 0; i < n && ngot < 24; i++) {
      got[ngot].key = ev[i].completion_key; got[ngot].data = ev[i].bytes_transferred; got[ngot].used = 0; ngot++;
      k += snprintf (line + k, sizeof line - (size_t) k, " (key=0x%lx,data=%ld)", (unsigned long) ev[i].completion_key, (long) ev[i].bytes_transferred);
    }
    vx_obs ("%s", line);
  }
  g_call = "-";
  sched_end ();
  /* oracle: multiset delivered == multiset posted */
  note want[12]; int nwant = 0;
  for (int i = 0; i < nPO; i++) for (int j = 0; j < PO[i].n; j++) {
    if (PO[i].op[j].rc != 0) { failf ("C19:post:post-call-failed", "poster %d op %d returned %d", i, j, PO[i].op[j].rc); continue; }
    want[nwant].key = PO[i].op[j].key; want[nwant].data = PO[i].op[j].data; want[nwant].kind = PO[i].op[j].kind; want[nwant].used = 0; nwant++;
  }
  if (g_selftest == 1) { want[nwant] = want[0]; nwant++; }       /* broken model: claims one more post than was made */
  for (int i = 0; i < nwant; i++) for (int j = 0; j < ngot; j++)
    if (!want[i].used && !got[j].used && want[i].key == got[j].key && want[i].data == got[j].data) { want[i].used = got[j].used = 1; }
  /* every unexpected event: is it the sum of several missing posts? */
  for (int j = 0; j < ngot; j++) if (!got[j].used) {
    uint64_t val = (got[j].key << 32) | (got[j].data & 0xffffffffu);
    int miss[12], nm = 0, hit = 0;
    for (int i = 0; i < nwant; i++) if (!want[i].used) miss[nm++] = i;
    for (unsigned m = 1; m < (1u << nm) && !hit; m++) {
      if (popcount_u (m) < 2) continue;
      uint64_t sum = 0; int np = 0, nw = 0;
      for (int b = 0; b < nm; b++) if (m >> b & 1) { note *x = &want[miss[b]]; sum += (x->key << 32) | x->data; if (x->kind == 'w') nw++; else np++; }
      if (sum != val) continue;
      hit = 1;
      for (int b = 0; b < nm; b++) if (m >> b & 1) want[miss[b]].used = 1;
      got[j].used = 1;
      const char *key = np >= 2 ? "C19:post:completions-merged" : np == 1 ? "C19:post:wakeup-merged-into-completion" : "C19:post:wakeups-merged";
      failf (key, "%d completion(s) and %d wake-up(s) posted between two waits were delivered as ONE event (key=0x%lx,data=%ld) [posts %s]",
             np, nw, (unsigned long) got[j].key, (long) got[j].data, post_specs[v]);
    }
    if (!hit) failf ("C19:post:invented", "event (key=0x%lx,data=%ld) was delivered but never posted [posts %s]", (unsigned long) got[j].key, (long) got[j].data, post_specs[v]);
  }
  for (int i = 0; i < nwant; i++) if (!want[i].used)
    failf (want[i].kind == 'w' ? "C19:post:wakeup-lost" : "C19:post:completion-lost", "posted (key=0x%lx,data=%ld) was never delivered [posts %s]",
           (unsigned long) want[i].key, (long) want[i].data, post_specs[v]);
  vx_count (0, ngot);
  async_runtime_deinit (rt);
}

/* ====================================================================== body 2: queue */
typedef struct { int thr; char kind; int arg, ret, val; long t_call, t_ret; } hop;
#define MAXH 40
static hop H[MAXH];
static int nH;
static long lclock;
static async_queue_t *Q;
static int q_policy, q_cap = 2, q_total;
static const char *polname[] = { "fail", "drop-oldest", "block-writer" };

static long stamp (void) { return __atomic_add_fetch (&lclock, 1, __ATOMIC_SEQ_CST); }
/* one completed operation: [t_call, t_ret] are logical-clock stamps taken before the call and after the return */
static void h_add (int thr, char kind, int arg, int ret, int val, long t_call, long t_ret) {
  int i = __atomic_fetch_add (&nH, 1, __ATOMIC_SEQ_CST);
  if (i >= MAXH) { failf ("C19:harness:history-full", "history full"); vx_child_exit (0); }
  H[i].thr = thr; H[i].kind = kind; H[i].arg = arg; H[i].ret = ret; H[i].val = val; H[i].t_call = t_call; H[i].t_ret = t_ret;
}
static void *producer_fn (void *a) {
  int p = (int) (long) a;
  for (int i = 0; i < 2; i++) {
    int v = p * 10 + i + 1;
    long tc = stamp ();
    int r = async_queue_enqueue (Q, &v, sizeof v);
    h_add (p, 'E', v, r, 0, tc, stamp ());
  }
  return 0;
}
static int do_dequeue (int thr, int keep_empty) {
  int v = -1; size_t sz = 0;
  long tc = stamp ();
  int r = async_queue_dequeue (Q, &v, sizeof v, &sz);
  long tr = stamp ();
  if (r || keep_empty) h_add (thr, 'D', 0, r, r ? v : 0, tc, tr);
  return r;
}
static void *consumer_fn (void *a) {
  (void) a;
  int got = 0, empties = 0;
  for (int i = 0; q_policy == 2 ? got < q_total : i < 4; i++) {
    /* a long run of "empty" answers is recorded only up to 6 in a row (dropping an operation from the
     * history only removes constraints); if the producers are stuck the scheduler's horizon reports it */
    int r = do_dequeue (3, empties < 6);
    if (r) { got++; empties = 0; }
    else { empties++; if (q_policy == 2) msleep (1); }
    if (!SCHED && empties > 3000) free_abort ();        /* natively stuck: end the element (scheduler runs report the hang) */
  }
  return 0;
}
/* brute-force linearizability against a sequential bounded queue with the stated policy */
static int lin_ops;
static int lin (unsigned done, int *mq, int mc, int *drops) {
  if (done == (1u << lin_ops) - 1) return 1;
  for (int i = 0; i < lin_ops; i++) {
    if (done >> i & 1) continue;
    int ok = 1;
    for (int j = 0; j < lin_ops && ok; j++) if (j != i && !(done >> j & 1) && H[j].t_ret < H[i].t_call) ok = 0;
    if (!ok) continue;
    int q2[8], c2 = mc, d2 = *drops; memcpy (q2, mq, sizeof q2);
    if (H[i].kind == 'E') {
      if (c2 >= q_cap) {
        if (q_policy == 0) { if (H[i].ret != 0) continue; }
        else if (q_policy == 1) { if (H[i].ret != 1) continue; memmove (q2, q2 + 1, sizeof (int) * (size_t) (c2 - 1)); q2[c2 - 1] = H[i].arg; d2++; }
        else continue;          /* block-writer: cannot take effect while full */
      } else { if (H[i].ret != 1) continue; q2[c2++] = H[i].arg; }
    } else {
      if (c2 == 0) { if (H[i].ret != 0) continue; }
      else { if (H[i].ret != 1 || H[i].val != q2[0]) continue; memmove (q2, q2 + 1, sizeof (int) * (size_t) (c2 - 1)); c2--; }
    }
    int dsave = *drops; *drops = d2;
    if (lin (done | 1u << i, q2, c2, drops)) return 1;
    *drops = dsave;
  }
  return 0;
}
static void body_queue (void) {
  g_bodyname = "queue";
  q_policy = choose_variant (3); g_variant = q_policy;
  nH = 0; lclock = 0; q_total = 4;
  vx_obs ("queue policy %s capacity %d", polname[q_policy], q_cap);
  begin ();
  Q = async_queue_create ((size_t) q_cap, sizeof (int), q_policy == 1 ? ASYNC_QUEUE_DROP_OLDEST : q_policy == 2 ? ASYNC_QUEUE_BLOCK_WRITER : 0);
  pthread_t th[3];
  pthread_create (&th[0], 0, producer_fn, (void *) 1L);
  pthread_create (&th[1], 0, producer_fn, (void *) 2L);
  pthread_create (&th[2], 0, consumer_fn, 0);
  g_call = "pthread_join";
  for (int i = 0; i < 3; i++) pthread_join (th[i], 0);
  g_call = "drain";
  for (int i = 0; i < q_cap + 1; i++) if (!do_dequeue (0, 1)) break;
  async_queue_stats_t st; async_queue_get_stats (Q, &st);
  g_call = "-";
  sched_end ();
  int enq_ok = 0, deq_ok = 0;
  for (int i = 0; i < nH; i++) {
    if (H[i].kind == 'E') vx_obs ("  [%ld,%ld] T%d enqueue(%d) -> %d", H[i].t_call, H[i].t_ret, H[i].thr, H[i].arg, H[i].ret);
    else if (H[i].ret) vx_obs ("  [%ld,%ld] T%d dequeue() -> %d", H[i].t_call, H[i].t_ret, H[i].thr, H[i].val);
    else vx_obs ("  [%ld,%ld] T%d dequeue() -> empty", H[i].t_call, H[i].t_ret, H[i].thr);
    if (H[i].kind == 'E' && H[i].ret) enq_ok++;
    if (H[i].kind == 'D' && H[i].ret) deq_ok++;
  }
  if (g_selftest == 2 && nH > 2) { for (int i = 0; i < nH; i++) if (H[i].kind == 'D' && H[i].ret) { H[i].val += 1; break; } }  /* broken observation */
  lin_ops = nH;
  int mq[8] = { 0 }, drops = 0;
  if (!lin (0, mq, 0, &drops))
    failf ("C19:queue:not-linearizable", "policy %s: the recorded history has no linearization against a sequential capacity-%d queue", polname[q_policy], q_cap);
  else {
    vx_obs ("linearizable; drops=%d; stats enq=%lu deq=%lu dropped=%lu", drops, (unsigned long) st.enqueue_count, (unsigned long) st.dequeue_count, (unsigned long) st.dropped_count);
    if ((int) st.enqueue_count != enq_ok || (int) st.dequeue_count != deq_ok || (int) st.dropped_count != enq_ok - deq_ok || st.current_size != 0)
      failf ("C19:queue:stats-mismatch", "policy %s: accepted=%d delivered=%d but stats say enq=%lu deq=%lu dropped=%lu size=%lu", polname[q_policy], enq_ok, deq_ok,
             (unsigned long) st.enqueue_count, (unsigned long) st.dequeue_count, (unsigned long) st.dropped_count, (unsigned long) st.current_size);
    if (q_policy != 1 && enq_ok != deq_ok)
      failf ("C19:queue:message-lost", "policy %s: %d accepted, %d delivered", polname[q_policy], enq_ok, deq_ok);
  }
  vx_count (1, enq_ok - deq_ok);
  async_queue_destroy (Q);
}

/* ====================================================================== body 3: worker life cycle */
enum { A_STOP, A_JT, A_JI, A_SLEEP, A_END };
static const char *aname[] = { "signal_stop", "join(20)", "join(-1)", "sleep", "end" };
typedef struct { int wv; int act[6]; } wscript;
/* wv: 0 = worker polls should_stop until told to stop; 1 = returns at once; 2 = two rounds, then returns by itself;
 *     3 = "interruptible sleep": while (!should_stop) { work; platform_event_wait(stop_event, 5 ms); } */
static const wscript WS[] = {
  { 0, { A_STOP, A_JI, A_END } },
  { 0, { A_STOP, A_JT, A_END } },
  { 0, { A_JT, A_STOP, A_JI, A_END } },
  { 0, { A_SLEEP, A_STOP, A_JT, A_END } },
  { 0, { A_SLEEP, A_JT, A_STOP, A_JT, A_END } },
  { 1, { A_JI, A_END } },
  { 1, { A_JT, A_END } },
  { 1, { A_STOP, A_JT, A_END } },
  { 2, { A_JI, A_END } },
  { 2, { A_JT, A_JT, A_END } },
  { 2, { A_SLEEP, A_STOP, A_JI, A_END } },
  { 2, { A_SLEEP, A_SLEEP, A_JT, A_END } },
  { 3, { A_STOP, A_JI, A_END } },
  { 3, { A_SLEEP, A_STOP, A_JI, A_END } },
  { 3, { A_SLEEP, A_STOP, A_JT, A_JT, A_END } },
  { 3, { A_SLEEP, A_SLEEP, A_STOP, A_STOP, A_JI, A_END } },
};
#define NWS ((int) (sizeof WS / sizeof WS[0]))
static int w_cb, w_variant;
static void *wproc (void *ctx) {
  (void) ctx;
  async_worker_t *w = async_worker_current ();
  if (w_variant == 1) { __atomic_add_fetch (&w_cb, 1, __ATOMIC_SEQ_CST); return 0; }
  if (w_variant == 3) {
    while (!async_worker_should_stop (w)) {
      __atomic_add_fetch (&w_cb, 1, __ATOMIC_SEQ_CST);
      platform_event_wait (async_worker_get_stop_event (w), 5);
    }
    return 0;
  }
  for (int i = 0; w_variant == 0 || i < 2; i++) {
    if (async_worker_should_stop (w)) break;
    __atomic_add_fetch (&w_cb, 1, __ATOMIC_SEQ_CST);
    msleep (1);
  }
  return 0;
}
static void body_worker (void) {
  g_bodyname = "worker";
  int v = choose_variant (NWS); g_variant = v;
  const wscript *s = &WS[v];
  w_variant = s->wv; w_cb = 0;
  char seen[32]; int ns = 0;
  begin ();
  g_call = "async_worker_create";
  async_worker_t *w = async_worker_create (wproc, 0, 0);
  if (!w) { failf ("C19:harness:worker-create", "async_worker_create failed"); return; }
  int joined = 0, stopped = 0;
#define OBSERVE() do { int st_ = (int) async_worker_get_state (w); if (ns < 31) seen[ns++] = st_ == ASYNC_WORKER_STOPPED ? 'S' : st_ == ASYNC_WORKER_RUNNING ? 'R' : 'X'; } while (0)
  OBSERVE ();
  char line[200]; int k = snprintf (line, sizeof line, "worker variant %d (behaviour %d):", v, s->wv);
  for (int i = 0; ; i++) {
    int a = s->act[i];
    if (a == A_END) {           /* finish whatever the script left open */
      if (joined) break;
      a = stopped ? A_JI : A_STOP; i--;
    }
    if (joined && (a == A_JT || a == A_JI)) continue;
    int r = -1;
    switch (a) {
    case A_STOP: g_call = "async_worker_signal_stop"; async_worker_signal_stop (w); stopped = 1; break;
    case A_JT: g_call = stopped || (s->wv && s->wv != 3) ? "async_worker_join(20)" : "async_worker_join(20)-before-stop"; r = async_worker_join (w, 20); break;
    case A_JI: g_call = "async_worker_join(-1)"; r = async_worker_join (w, -1); break;
    case A_SLEEP: g_call = "sleep"; msleep (1); break;
    }
    g_call = "-";
    k += snprintf (line + k, sizeof line - (size_t) k, " %s%s", aname[a], r < 0 ? "" : r ? "=true" : "=false");
    OBSERVE ();
    if (r == 1) {
      joined = 1;
      if (!sched_finished (1)) failf ("C19:worker:join-true-but-thread-running", "%s returned true while the worker thread has not finished", aname[a]);
      if (async_worker_get_state (w) != ASYNC_WORKER_STOPPED) failf ("C19:worker:state-not-stopped-after-join", "state %d after join returned true", (int) async_worker_get_state (w));
    }
    if (a == A_JT && r == 0 && s->wv == 1 && sched_finished (1))
      failf ("C19:worker:join-false-but-thread-finished", "join(20) returned false although the worker had already returned");
    if (a == A_JT && r == 1 && !stopped && (s->wv == 0 || s->wv == 3))
      failf ("C19:worker:join-true-without-stop", "join(20) returned true for a worker that only ends when told to stop");
  }
  int c0 = __atomic_load_n (&w_cb, __ATOMIC_SEQ_CST);
  g_call = "sleep"; msleep (1); msleep (1); g_call = "-";
  int c1 = __atomic_load_n (&w_cb, __ATOMIC_SEQ_CST);
  OBSERVE ();
  seen[ns] = 0;
  if (g_selftest == 3) c1++;                                   /* broken observation */
  if (c1 != c0) failf ("C19:worker:callback-after-join", "worker body ran %d more time(s) after join returned true", c1 - c0);
  /* legal life cycle as seen by one observer: S* R* S* */
  { int ph = 0, bad = 0;
    for (int i = 0; i < ns; i++) {
      if (seen[i] == 'X') bad = 1;
      else if (ph == 0 && seen[i] == 'R') ph = 1;
      else if (ph == 1 && seen[i] == 'S') ph = 2;
      else if (ph == 2 && seen[i] == 'R') bad = 1;
    }
    if (bad) failf ("C19:worker:illegal-state-sequence", "observed states %s", seen);
  }
  vx_obs ("%s ; states %s ; body ran %d", line, seen, c1);
  g_call = "async_worker_destroy";
  async_worker_destroy (w);
  g_call = "-";
  sched_end ();
  vx_count (2, c1);
}

/* ====================================================================== body 4: timer */
static int t_ticks;
static void tick_cb (void) { __atomic_add_fetch (&t_ticks, 1, __ATOMIC_SEQ_CST); if (rt) async_runtime_wakeup (rt); }
static int ticks_now (void) { return __atomic_load_n (&t_ticks, __ATOMIC_SEQ_CST); }
static void settle (const char *what, int tid) {
  int c0 = ticks_now ();
  if (SCHED && !sched_finished (tid)) failf ("C19:timer:thread-alive-after-stop", "%s returned but the timer thread (T%d) has not finished", what, tid);
  g_call = "sleep"; msleep (2); msleep (2); g_call = "-";
  int c1 = ticks_now ();
  if (g_selftest == 4) c1++;
  if (c1 != c0) failf ("C19:timer:callback-after-stop", "callback ran %d more time(s) after %s returned", c1 - c0, what);
}
static void body_timer (void) {
  g_bodyname = "timer";
  int v = choose_variant (4); g_variant = v;
  t_ticks = 0; rt = 0;
  platform_timer_t tm = { 0 };
  timer_error_t e;
  begin ();
  if (v == 3) rt = async_runtime_init ();       /* callback also wakes the event loop, as heartbeat_timer_callback does */
#define EXPECT(call, want) do { g_call = #call; e = (call); g_call = "-"; if (e != (want)) failf ("C19:timer:unexpected-result", "%s returned %d (%s), expected %d", #call, (int) e, timer_error_string (e), (int) (want)); } while (0)
  EXPECT (platform_timer_init (&tm), TIMER_OK);
  switch (v) {
  case 0:       /* start, let it tick, stop, cleanup */
    EXPECT (platform_timer_start (&tm, 1000, tick_cb), TIMER_OK);
    g_call = "sleep"; msleep (2); msleep (2); g_call = "-";
    EXPECT (platform_timer_stop (&tm), TIMER_OK);
    settle ("platform_timer_stop", 1);
    break;
  case 1:       /* stop at once, restart, cleanup without stop */
    EXPECT (platform_timer_start (&tm, 1000, tick_cb), TIMER_OK);
    EXPECT (platform_timer_stop (&tm), TIMER_OK);
    settle ("platform_timer_stop", 1);
    EXPECT (platform_timer_start (&tm, 1000, tick_cb), TIMER_OK);
    g_call = "sleep"; msleep (2); g_call = "-";
    break;
  case 2:       /* double start, double stop */
    EXPECT (platform_timer_start (&tm, 1000, tick_cb), TIMER_OK);
    EXPECT (platform_timer_start (&tm, 1000, tick_cb), TIMER_ERR_ALREADY_ACTIVE);
    g_call = "sleep"; msleep (2); g_call = "-";
    EXPECT (platform_timer_stop (&tm), TIMER_OK);
    EXPECT (platform_timer_stop (&tm), TIMER_OK);
    settle ("platform_timer_stop", 1);
    break;
  case 3: {     /* heart-beat pattern: main waits on the event loop between ticks, then stops */
    EXPECT (platform_timer_start (&tm, 1000, tick_cb), TIMER_OK);
    int wake = 0, full = 0;
    for (int i = 0; i < 2; i++) {
      io_event_t ev[2]; struct timeval tv = { 0, SCHED ? 5000 : 3000 };
      g_call = "async_runtime_wait";
      int n = async_runtime_wait (rt, ev, 2, &tv);        /* a small event buffer (the driver's has 512 slots) */
      if (n == 2) full = 1;
      for (int j = 0; j < n; j++) wake += (int) ev[j].bytes_transferred;
    }
    g_call = "-";
    EXPECT (platform_timer_stop (&tm), TIMER_OK);
    settle ("platform_timer_stop", 1);
    { io_event_t ev[4]; struct timeval tv = { 0, 0 }; int n = async_runtime_wait (rt, ev, 4, &tv); for (int j = 0; j < n; j++) wake += (int) ev[j].bytes_transferred; }
    vx_obs ("ticks %d, wake-ups seen (summed) %d", ticks_now (), wake);
    if (wake != ticks_now ())
      failf (full && wake < ticks_now () ? "C19:wait:notification-dropped-when-event-buffer-full" : "C19:timer:wakeups-not-accounted",
             "%d ticks called async_runtime_wakeup, the event loop accounted for %d%s", ticks_now (), wake,
             full ? " (a wait returned max_events=2 events: what it read from the eventfd after that was discarded)" : "");
    break; }
  }
  g_call = "platform_timer_cleanup";
  platform_timer_cleanup (&tm);
  g_call = "-";
  settle ("platform_timer_cleanup", v == 1 ? 2 : 1);
  if (tm.internal) failf ("C19:timer:unexpected-result", "internal pointer not cleared by cleanup");
  vx_obs ("timer variant %d: ticks %d", v, ticks_now ());
  if (rt) { async_runtime_deinit (rt); rt = 0; }
  sched_end ();
  vx_count (3, ticks_now ());
}

/* ====================================================================== body 5: console path */
static const char *con_lines[] = { "look\n", "say hi\n", "quit\n" };
static void body_console (void) {
  g_bodyname = "console";
  int v = choose_variant (2); g_variant = v;
  int nlines = 2 + v;
  int pfd[2];
  if (pipe (pfd)) { failf ("C19:harness:pipe", "pipe failed"); return; }
  dup2 (pfd[0], STDIN_FILENO); close (pfd[0]);
  begin ();
  sched_track_fd (STDIN_FILENO); sched_track_fd (pfd[1]);
  rt = async_runtime_init ();
  async_queue_t *q = async_queue_create (8, CONSOLE_MAX_LINE, ASYNC_QUEUE_DROP_OLDEST);
  /* the driver has written many start-up lines before init_user_conn() creates the console worker, so the
   * logger's lazily initialised globals are already set when the worker thread logs "Console worker started" */
  debug_message ("{}\tboot messages precede the console worker");
  g_call = "console_worker_init";
  console_worker_context_t *cw = console_worker_init (rt, q, CONSOLE_COMPLETION_KEY);
  if (!cw || !cw->worker) { failf ("C19:harness:console-init", "console_worker_init: no worker (type %d)", cw ? (int) cw->console_type : -1); vx_child_exit (0); }
  debug_message ("{}\ttimer started");         /* main keeps logging while the worker starts (backend() does) */
  char written[200] = "", delivered[400] = ""; size_t nw = 0, nd = 0;
  g_call = "write";
  for (int i = 0; i < nlines; i++) {
    size_t l = strlen (con_lines[i]);
    if (write (pfd[1], con_lines[i], l) != (ssize_t) l) failf ("C19:harness:pipe", "short write");
    memcpy (written + nw, con_lines[i], l); nw += l;
  }
  int unknown = 0;
  for (int w = 0; w < g_waits && nd < nw; w++) {
    io_event_t ev[8]; struct timeval tv = { 0, SCHED ? 100000 : 20000 };
    g_call = "async_runtime_wait";
    int n = async_runtime_wait (rt, ev, 8, &tv);
    g_call = "drain";
    char line[300]; int k = snprintf (line, sizeof line, "wait#%d -> %d:", w, n);
    for (int i = 0; i < n; i++) {
      k += snprintf (line + k, sizeof line - (size_t) k, " key=0x%lx", (unsigned long) ev[i].completion_key);
      if (ev[i].completion_key == CONSOLE_COMPLETION_KEY) {     /* process_io(): drain all pending lines */
        char buf[CONSOLE_MAX_LINE]; size_t len;
        while (async_queue_dequeue (q, buf, sizeof buf, &len)) {
          size_t l = strlen (buf);
          if (nd + l < sizeof delivered) { memcpy (delivered + nd, buf, l); nd += l; }
          k += snprintf (line + k, sizeof line - (size_t) k, "[%zu bytes]", l);
        }
      } else if (ev[i].completion_key != 0 || ev[i].context) unknown++;
    }
    vx_obs ("%s", line);
  }
  delivered[nd] = 0;
  g_call = "console_worker_shutdown(5000)";
  bool down = console_worker_shutdown (cw, 5000);
  g_call = "-";
  if (!down) failf ("C19:console:shutdown-timeout", "console_worker_shutdown(5000) returned false");
  else if (!sched_finished (1)) failf ("C19:console:shutdown-true-but-thread-running", "shutdown returned true, worker thread not finished");
  /* what is still sitting in the queue although the loop waited g_waits times? */
  char stranded[400] = ""; size_t nst = 0;
  { char buf[CONSOLE_MAX_LINE]; size_t len; while (async_queue_dequeue (q, buf, sizeof buf, &len)) { size_t l = strlen (buf); if (nst + l < sizeof stranded) { memcpy (stranded + nst, buf, l); nst += l; } } }
  int unread = 0; ioctl (STDIN_FILENO, FIONREAD, &unread);
  vx_obs ("written %zu delivered %zu stranded-in-queue %zu unread-in-pipe %d events-with-unknown-key %d", nw, nd, nst, unread, unknown);
  if (g_selftest == 5) nd--;
  if (nd > nw || memcmp (written, delivered, nd)) failf ("C19:console:order-or-duplicate", "delivered text is not a prefix of the written text");
  else if (nd < nw) {
    if (nst && unknown) failf ("C19:console:line-stranded-notification-merged", "%zu byte(s) were enqueued by the worker but the main loop never saw a completion with the console key (%d event(s) carried a different key) after %d waits", nst, unknown, g_waits);
    else if (nst) failf ("C19:console:line-stranded-in-queue", "%zu byte(s) enqueued by the worker were not drained after %d waits", nst, g_waits);
    else if (nd + nst + (size_t) unread < nw) failf ("C19:console:line-lost", "%zu byte(s) vanished", nw - nd - nst - (size_t) unread);
    else failf ("C19:console:not-delivered-before-horizon", "%d byte(s) still unread in the pipe after %d waits", unread, g_waits);
  }
  g_call = "console_worker_destroy";
  console_worker_destroy (cw);
  async_queue_destroy (q);
  async_runtime_deinit (rt); rt = 0;
  g_call = "-";
  sched_end ();
  close (pfd[1]);
  vx_count (4, (long) nd);
}

/* ====================================================================== body 6: posts pile up */
#define PU_CAP_RECORDS 3
#define PU_POSTS 5
static int pu_rc[PU_POSTS], pu_done, pu_acc_wake;
static void *pu_proc (void *ctx) {
  (void) ctx;
  async_worker_t *w = async_worker_current ();
  for (int i = 0; i < PU_POSTS; i++) pu_rc[i] = async_runtime_post_completion (rt, KEY1, (uintptr_t) (i + 1));
  __atomic_store_n (&pu_done, 1, __ATOMIC_SEQ_CST);
  while (!async_worker_should_stop (w)) msleep (1);
  return 0;
}
static void pu_tick (void) { if (async_runtime_wakeup (rt) == 0) __atomic_add_fetch (&pu_acc_wake, 1, __ATOMIC_SEQ_CST); __atomic_add_fetch (&t_ticks, 1, __ATOMIC_SEQ_CST); }
static void body_pileup (void) {
  g_bodyname = "pileup";
  int v = choose_variant (3); g_variant = v;
  g_pipe_cap = PU_CAP_RECORDS * 8;
  memset (pu_rc, 0x7f, sizeof pu_rc); pu_done = 0; pu_acc_wake = 0; t_ticks = 0;
  begin ();
  g_pipe_cap = 0;
  rt = async_runtime_init ();
  if (!rt) { failf ("C19:harness:runtime-init", "async_runtime_init failed"); return; }
  io_event_t ev[8];
  if (v < 2) {                  /* a worker posts PU_POSTS completions, nobody waits; then stop + join */
    g_call = "async_worker_create";
    async_worker_t *w = async_worker_create (pu_proc, 0, 0);
    g_call = "sleep"; msleep (1); msleep (1);
    g_call = "async_worker_signal_stop"; async_worker_signal_stop (w);
    int r;
    if (v == 0) { g_call = "async_worker_join(50)-after-pile-up"; r = async_worker_join (w, 50); }
    else { g_call = "async_worker_join(-1)-after-pile-up"; r = async_worker_join (w, -1); }
    g_call = "-";
    vx_obs ("pile-up variant %d: stop + join -> %s", v, r ? "true" : "false");
    if (!r) failf ("C19:pileup:stop-join-times-out-after-posts-piled-up", "the worker posted %d completions into a notification pipe holding %d while nobody waited; signal_stop + join(50) returned false (worker is %s)",
                   PU_POSTS, PU_CAP_RECORDS, sched_pending (1));
    /* drain: everything that was accepted, once, in order */
    int seq[16], ns = 0;
    for (int round = 0; round < 8; round++) {
      struct timeval tv = { 0, 0 };
      g_call = "async_runtime_wait";
      int n = async_runtime_wait (rt, ev, 8, &tv);
      for (int i = 0; i < n && ns < 16; i++) { if (ev[i].completion_key != KEY1) failf ("C19:pileup:wrong-key", "key 0x%lx", (unsigned long) ev[i].completion_key); seq[ns++] = (int) ev[i].bytes_transferred; }
      if (!r && round == 0) { g_call = "async_worker_join(-1)-after-drain"; r = async_worker_join (w, -1); }
      if (n == 0 && r) break;
    }
    g_call = "-";
    int acc[PU_POSTS], na = 0;
    for (int i = 0; i < PU_POSTS; i++) if (pu_rc[i] == 0) acc[na++] = i + 1;
    char a1[80] = "", a2[80] = ""; int k1 = 0, k2 = 0;
    for (int i = 0; i < na; i++) k1 += snprintf (a1 + k1, sizeof a1 - (size_t) k1, "%d ", acc[i]);
    for (int i = 0; i < ns; i++) k2 += snprintf (a2 + k2, sizeof a2 - (size_t) k2, "%d ", seq[i]);
    vx_obs ("accepted: %s; delivered: %s", a1, a2);
    if (g_selftest == 6 && ns) ns--;
    if (na < PU_CAP_RECORDS) failf ("C19:pileup:post-refused-although-room", "only %d of %d posts accepted, the pipe holds %d", na, PU_POSTS, PU_CAP_RECORDS);
    if (na != ns || memcmp (acc, seq, sizeof (int) * (size_t) na)) failf ("C19:pileup:accepted-not-delivered-exactly-once-in-order", "accepted {%s} delivered {%s}", a1, a2);
    async_worker_destroy (w);
    vx_count (0, ns);
  } else {                      /* a timer whose callback wakes the loop (heart-beat) ticks while nobody waits; then stop */
    platform_timer_t tm = { 0 }; timer_error_t e;
    EXPECT (platform_timer_init (&tm), TIMER_OK);
    EXPECT (platform_timer_start (&tm, 1000, pu_tick), TIMER_OK);
    g_call = "sleep"; for (int i = 0; i < PU_CAP_RECORDS + 2; i++) msleep (2);
    g_call = "platform_timer_stop-after-pile-up";
    e = platform_timer_stop (&tm);
    g_call = "-";
    if (e != TIMER_OK) failf ("C19:timer:unexpected-result", "platform_timer_stop returned %d", (int) e);
    if (SCHED && !sched_finished (1)) failf ("C19:timer:thread-alive-after-stop", "platform_timer_stop returned but the timer thread has not finished");
    int wake = 0;
    for (int round = 0; round < 8; round++) {
      struct timeval tv = { 0, 0 };
      int n = async_runtime_wait (rt, ev, 8, &tv);
      for (int i = 0; i < n; i++) wake += (int) ev[i].bytes_transferred;
      if (!n) break;
    }
    int accw = __atomic_load_n (&pu_acc_wake, __ATOMIC_SEQ_CST);
    vx_obs ("pile-up variant 2: ticks %d, wake-ups accepted %d, delivered %d", ticks_now (), accw, wake);
    if (wake != accw) failf ("C19:pileup:accepted-wakeups-not-delivered-exactly-once", "%d wake-ups accepted, %d delivered", accw, wake);
    platform_timer_cleanup (&tm);
    vx_count (3, ticks_now ());
  }
  async_runtime_deinit (rt); rt = 0;
  sched_end ();
}

/* ====================================================================== body 7: events */
typedef struct { int timeout; int r; long t_call, t_ret; pthread_t th; } ewaiter;
static platform_event_t EV;
static ewaiter EW[2];
static int ew_returned;
static void *ewait_fn (void *a) {
  ewaiter *w = a;
  w->t_call = stamp ();
  w->r = platform_event_wait (&EV, w->timeout);
  w->t_ret = stamp ();
  __atomic_add_fetch (&ew_returned, 1, __ATOMIC_SEQ_CST);
  return 0;
}
static void body_event (void) {
  g_bodyname = "event";
  /* manual-reset: timed+timed, timed+infinite, infinite+infinite (one set); auto-reset: infinite+infinite, two sets */
  static const struct { int manual, t0, t1, sets; } EVV[] = { { 1, 8, 8, 1 }, { 1, 8, -1, 1 }, { 1, -1, -1, 1 }, { 0, -1, -1, 2 } };
  int v = choose_variant (4); g_variant = v;
  lclock = 0; ew_returned = 0;
  begin ();
  platform_event_init (&EV, EVV[v].manual, false);
  EW[0].timeout = EVV[v].t0; EW[1].timeout = EVV[v].t1;
  for (int i = 0; i < 2; i++) pthread_create (&EW[i].th, 0, ewait_fn, &EW[i]);
  g_call = "sleep"; msleep (1);
  long set_call = 0, set_ret = 0;
  for (int i = 0; i < EVV[v].sets; i++) {
    g_call = "platform_event_set";
    long c = stamp (); platform_event_set (&EV); long r = stamp ();
    if (!i) { set_call = c; set_ret = r; }
    /* an auto-reset event is binary: the next set() only counts once the previous one was consumed */
    if (i + 1 < EVV[v].sets) { g_call = "sleep"; while (__atomic_load_n (&ew_returned, __ATOMIC_SEQ_CST) < i + 1) msleep (1); }
  }
  g_call = "pthread_join(waiter)";
  for (int i = 0; i < 2; i++) pthread_join (EW[i].th, 0);
  g_call = "platform_event_wait(0)";
  int still = platform_event_wait (&EV, 0);
  platform_event_reset (&EV);
  int after_reset = platform_event_wait (&EV, 0);
  g_call = "-";
  sched_end ();
  vx_obs ("event variant %d (%s-reset, timeouts %d/%d, %d set): waiters -> %d %d ; still signalled afterwards %d ; after reset %d", v, EVV[v].manual ? "manual" : "auto",
          EVV[v].t0, EVV[v].t1, EVV[v].sets, EW[0].r, EW[1].r, still, after_reset);
  if (g_selftest == 7) still = !still;
  for (int i = 0; i < 2; i++) {
    if (EW[i].timeout < 0 && !EW[i].r) failf ("C19:event:infinite-wait-returned-false", "waiter %d", i);
    if (EVV[v].manual && !EW[i].r && EW[i].t_call > set_ret)
      failf ("C19:event:manual-reset-event-not-seen-by-later-waiter", "waiter %d began waiting after set() had returned and got false", i);
  }
  if (EVV[v].manual) {
    if (!still) failf ("C19:event:manual-reset-event-consumed-by-a-wait", "one set() on a manual-reset event, waiters (timeouts %d, %d ms) returned %d, %d, and the event is no longer signalled (it must stay set until reset)",
                       EVV[v].t0, EVV[v].t1, EW[0].r, EW[1].r);
  } else {
    int released = EW[0].r + EW[1].r;
    if (released + still != EVV[v].sets)
      failf ("C19:event:auto-reset-accounting", "%d set(), %d waiter(s) released, still signalled %d", EVV[v].sets, released, still);
  }
  if (after_reset) failf ("C19:event:signalled-after-reset", "platform_event_wait(0) is true right after platform_event_reset");
  platform_event_destroy (&EV);
  (void) set_call;
}

/* ====================================================================== body 8: two workers */
static async_worker_t *W2[2];
static int w2_wrong[2], w2_runs[2];
static void *w2_proc (void *ctx) {
  int me = (int) (long) ctx;
  for (;;) {
    async_worker_t *cur = async_worker_current ();             /* as the console worker loop: not a captured handle */
    async_worker_t *mine = __atomic_load_n (&W2[me], __ATOMIC_SEQ_CST);
    if (mine && cur != mine) __atomic_store_n (&w2_wrong[me], 1, __ATOMIC_SEQ_CST);
    if (async_worker_should_stop (cur)) break;
    __atomic_add_fetch (&w2_runs[me], 1, __ATOMIC_SEQ_CST);
    msleep (1);
  }
  return 0;
}
static void body_workers (void) {
  g_bodyname = "workers";
  /* order of the stop requests and joins: 0 = stop A, join A, stop B, join B; 1 = B first; 2 = stop A, stop B, join A, join B; 3 = stop B, stop A, join B, join A */
  static const int ORD[4][4] = { { 0, 10, 1, 11 }, { 1, 11, 0, 10 }, { 0, 1, 10, 11 }, { 1, 0, 11, 10 } };
  int v = choose_variant (4); g_variant = v;
  memset (w2_wrong, 0, sizeof w2_wrong); memset (w2_runs, 0, sizeof w2_runs); W2[0] = W2[1] = 0;
  begin ();
  for (int i = 0; i < 2; i++) {
    g_call = "async_worker_create";
    async_worker_t *w = async_worker_create (w2_proc, (void *) (long) i, 0);
    if (!w) { failf ("C19:harness:worker-create", "async_worker_create failed"); return; }
    __atomic_store_n (&W2[i], w, __ATOMIC_SEQ_CST);
  }
  g_call = "sleep"; msleep (1); msleep (1);
  int joined[2] = { 0, 0 };
  char line[200]; int k = snprintf (line, sizeof line, "workers variant %d:", v);
  for (int s4 = 0; s4 < 4; s4++) {
    int a = ORD[v][s4], i = a % 10;
    if (a < 10) { g_call = i ? "async_worker_signal_stop(B)" : "async_worker_signal_stop(A)"; async_worker_signal_stop (W2[i]); k += snprintf (line + k, sizeof line - (size_t) k, " stop(%c)", 'A' + i); }
    else {
      g_call = i ? "async_worker_join(B,50)" : "async_worker_join(A,50)";
      int r = async_worker_join (W2[i], 50);
      joined[i] = r;
      k += snprintf (line + k, sizeof line - (size_t) k, " join(%c,50)=%s", 'A' + i, r ? "true" : "false");
      if (g_selftest == 8) r = 0;
      if (!r) failf ("C19:workers:stop-not-observed-join-times-out", "worker %c was told to stop and join(50) returned false while the other worker is %s (order %d)", 'A' + i,
                     sched_finished (2 - i) ? "finished" : "alive", v);
      else if (!sched_finished (1 + i)) failf ("C19:worker:join-true-but-thread-running", "join(%c) true, thread not finished", 'A' + i);
    }
  }
  vx_obs ("%s ; rounds %d/%d", line, w2_runs[0], w2_runs[1]);
  for (int i = 0; i < 2; i++) if (__atomic_load_n (&w2_wrong[i], __ATOMIC_SEQ_CST))
    failf ("C19:workers:current-is-another-worker", "async_worker_current() called on worker %c's thread returned a different handle", 'A' + i);
  /* clean up whatever a failed join left running */
  for (int i = 0; i < 2; i++) if (!joined[i]) { g_call = "async_worker_join(-1)-cleanup"; async_worker_signal_stop (W2[i]); async_worker_join (W2[i], -1); }
  g_call = "async_worker_destroy";
  for (int i = 0; i < 2; i++) async_worker_destroy (W2[i]);
  g_call = "-";
  sched_end ();
  vx_count (2, w2_runs[0] + w2_runs[1]);
}

/* ====================================================================== body 9: scheduler self-test */
static platform_mutex_t mA, mB;
static void *abba_fn (void *a) {
  (void) a;
  platform_mutex_lock (&mB); platform_mutex_lock (&mA);
  platform_mutex_unlock (&mA); platform_mutex_unlock (&mB);
  return 0;
}
static void body_abba (void) {
  g_bodyname = "abba";
  begin ();
  platform_mutex_init (&mA); platform_mutex_init (&mB);
  pthread_t th; pthread_create (&th, 0, abba_fn, 0);
  g_call = "lock-A-then-B";
  platform_mutex_lock (&mA); platform_mutex_lock (&mB);
  platform_mutex_unlock (&mB); platform_mutex_unlock (&mA);
  g_call = "pthread_join";
  pthread_join (th, 0);
  g_call = "-";
  sched_end ();
  vx_obs ("abba done");
}

/* ====================================================================== free-running build: TSan reports -> keys */
static void body (void);
#ifdef C19_FREE
typedef struct { int body, variant; } elem;
static elem EL[96];
static int nEL;
static long g_iters;
static const char *bname (int b) { return b == 1 ? "post" : b == 2 ? "queue" : b == 3 ? "worker" : b == 4 ? "timer" : b == 5 ? "console" : b == 6 ? "pileup" : b == 7 ? "event" : b == 8 ? "workers" : "?"; }
static void describe (long i, char *buf, size_t len) { snprintf (buf, len, "free-running %s variant %d x %ld iterations", bname (EL[i].body), EL[i].variant, g_iters); }

#include "c19_tsan.h"
static off_t g_from;
static void free_abort (void) {
  vx_count (7, 1);
  c19_tsan_what = g_bodyname; c19_tsan_variant = g_variant;
  scan_tsan (g_from);
  vx_child_exit (0);
}
/* a body that is natively stuck (possible only on a broken tree; the scheduler build decides those cases) must
 * not cost vx's 20x retry: a watchdog thread ends the element after --watchdog-ms, keeping the TSan reports */
static long g_watchdog_ms;
static void *watchdog_fn (void *a) {
  (void) a;
  for (long ms = 0; ms < g_watchdog_ms; ms += 50) { struct timespec ts = { 0, 50000000L }; nanosleep (&ts, 0); }
  free_abort ();
  return 0;
}
static void elem_fn (long idx) {
  off_t from = g_from = lseek (2, 0, SEEK_END);
  if (g_watchdog_ms > 0) { pthread_t wd; pthread_create (&wd, 0, watchdog_fn, 0); pthread_detach (wd); }
  g_body = EL[idx].body;
  /* the queue body is cheap and its races (e.g. a slot copied outside the lock) need a wrap-around to
   * coincide with the copy: give it four times the iterations */
  long iters = g_iters * (g_body == 2 ? 4 : 1);
  for (long it = 0; it < iters; it++) {
    g_variant = EL[idx].variant;
    body ();
  }
  vx_count (5, iters);
  c19_tsan_what = g_bodyname; c19_tsan_variant = g_variant;
  scan_tsan (from);
}
#endif

#ifndef C19_FREE
static void free_abort (void) { }
#endif
static void body (void) {
  switch (g_body) {
  case 1: body_post (); break;
  case 2: body_queue (); break;
  case 3: body_worker (); break;
  case 4: body_timer (); break;
  case 5: body_console (); break;
  case 6: body_pileup (); break;
  case 7: body_event (); break;
  case 8: body_workers (); break;
  case 9: body_abba (); break;
  default: failf ("C19:harness:no-such-body", "body %d", g_body);
  }
}

int main (int argc, char **argv) {
  vx_init_args (argc, argv);
  g_body = (int) vx_opt_long ("body", 1);
  g_selftest = (int) vx_opt_long ("selftest", 0);
  g_waits = (int) vx_opt_long ("waits", 5);
  g_vmask = (unsigned) vx_opt_long ("vmask", 0);
  vx_count_name (0, "events_delivered");
  vx_count_name (1, "messages_dropped");
  vx_count_name (2, "worker_body_runs");
  vx_count_name (3, "timer_ticks");
  vx_count_name (4, "console_bytes_delivered");
  vx_count_name (5, "free_running_iterations");
  vx_count_name (6, "free_running_oracle_hits_not_deciding");
  vx_count_name (7, "free_running_elements_ended_by_watchdog");
  debug_set_log_with_date (0);
#ifdef C19_FREE
  g_iters = vx_opt_long ("iters", 300);
  g_watchdog_ms = vx_opt_long ("watchdog-ms", 0);
  static const int nv[9] = { 0, NPOSTSPEC, 3, NWS, 4, 2, 3, 4, 4 };
  for (int b = 1; b <= 8; b++) for (int v = 0; v < nv[b]; v++) {
    /* worker script 2 (timed join before the worker was told to stop) really hangs when run natively
     * (finding C19:worker:hang:main-in-async_worker_join(20)-before-stop); script 4 covers the same accesses */
    if (b == 3 && v == 2 && !vx_opt_long ("with-hanging-script", 0)) continue;
    EL[nEL].body = b; EL[nEL].variant = v; nEL++;
  }
  g_vmask = 0;
  vx_set_enum (nEL, elem_fn, describe);
#endif
  return vx_run (argc, argv, body);
}
