/* C02 size sweeps: generated programs that cross every bounded table / limit of the compiler by ±2
 * (DESIGN §3 C02 (4)).  Each case is (family, a, b, c, d); sweep_gen() produces its source text. */
#include "hx.h"
#include "h_c02.h"
#include <sys/stat.h>

enum { SW_LOCALS, SW_BLOCKLOCALS, SW_LIT, SW_STRINGS, SW_FUNCS, SW_GLOBALS, SW_INHERITS, SW_CLASSES, SW_MEMBERS, SW_SWITCH, SW_INCDEPTH, SW_IFDEPTH, SW_EXPAND, SW_LINELEN, SW_NEST, SW_LITERAL,
  SW_CODESIZE, SW_OVERRIDE, SW_MANYLITS, SW_SWITCHSTR, SW_ABORT, SW_ROLES, SW_LITBLK, SW_TERM, SW_BLOCKCHUNK, SW_LONGTOK, SW_NFAM };
static const char *famname[] = { "locals", "blocklocals", "funlit", "strings", "functions", "globals", "inherits", "classes", "members", "switch", "include-depth", "if-depth",
  "macro-expansions", "line-length", "nesting", "literal", "code-size", "override", "many-funlits", "switch-string-sizes", "abort-inside-open-construct", "name-roles", "literals-and-closed-blocks", "file-termination", "text-block-chunks", "long-tokens" };
typedef struct { int fam, a, b, c, d; } scase;
static scase *cases; static long ncases, capcases;
static void add (int fam, int a, int b, int c, int d) {
  if (ncases == capcases) { capcases = capcases ? capcases * 2 : 4096; cases = realloc (cases, sizeof (scase) * (size_t) capcases); }
  scase s = { fam, a, b, c, d };
  cases[ncases++] = s;
}
static void around (int fam, int v, int b, int c, int d) { for (int k = v - 2; k <= v + 2; k++) if (k >= 0) add (fam, k, b, c, d); }

static void wfile (const char *rel, const char *text) {
  char p[PATH_MAX];
  snprintf (p, sizeof p, "%s/%s", c02_lib, rel);
  FILE *f = fopen (p, "w");
  if (!f) { perror (p); exit (2); }
  fputs (text, f);
  fclose (f);
}

/* names that are permanent identifiers (efuns, a simul_efun) and one that is not; every non-empty subset of the roles a
 * name can have in one program: bit 0 inherited function, 1 prototype, 2 global variable, 3 class, 4 function, 5 argument, 6 local */
static const char *ROLE_NAMES[] = { "time", "sizeof", "strlen", "sefun_add", "zork" };
#define NROLE_NAMES 5

static const char *LITERALS[] = { "0", "1", "2", "254", "255", "256", "257", "-1", "-2", "-254", "-255", "-256", "-257", "32767", "32768", "65535", "65536", "-32768", "-32769",
  "2147483646", "2147483647", "2147483648", "2147483649", "-2147483647", "-2147483648", "-2147483649", "4294967295", "4294967296", "9223372036854775806", "9223372036854775807",
  "9223372036854775808", "18446744073709551615", "18446744073709551616", "-9223372036854775807", "-9223372036854775808", "-9223372036854775809", "99999999999999999999999999999999",
  "0x0", "0xff", "0x100", "0x7fffffff", "0x80000000", "0xffffffff", "0x7fffffffffffffff", "0x8000000000000000", "0xffffffffffffffff", "0x10000000000000000", "0x", "0xg", "00", "010", "08",
  "0.0", "1.5", ".5", "5.", "1e10", "1e308", "1e309", "1e-400", "1.5e", "1e+", "1.2.3", "1..2", "1f", "1.0f", "1d", "1e5f", "'a'", "'\\n'", "'\\0'", "'\\377'", "'\\400'", "'\\x7f'", "'\\xff'",
  "'\\x100'", "''", "'ab'", "'\\", "'", "L'a'", "L'\\xe4\\xb8\\xad'", "L'\\xff'", "L''" };
#define NLITERALS ((int) (sizeof LITERALS / sizeof LITERALS[0]))

/* ---- file termination: body x ending x what was compiled just before (the lexer's buffers are static) */
static const char *TERM_BODY[] = { "", "int x;\n", "int x;\nint f(int a) { return a + x; }\n" };
static const char *TERM_BODY_NAME[] = { "empty", "one-global", "function" };
#define NTERM_BODY 3
static const struct { const char *name, *text; } TERM_END[] = {
  { "newline", "int y;\n" }, { "no-newline", "int y;" }, { "blank-lines", "int y;\n\n\n\n" }, { "spaces-no-newline", "int y;   \t " },
  { "line-comment-no-newline", "// c" }, { "empty-line-comment-no-newline", "//" }, { "line-comment-backslash", "// c \\" }, { "line-comment-after-code-no-newline", "int y; // c" },
  { "block-comment-no-newline", "/* c */" }, { "block-comment-open", "/* c" }, { "block-comment-star", "/* c *" }, { "slash", "/" },
  { "define-no-newline", "#define ZZ 1" }, { "define-continued", "#define ZZ 1 \\" }, { "define-continued-newline", "#define ZZ 1 \\\n" }, { "define-args-open", "#define ZZ(a" },
  { "pragma-no-newline", "#pragma strict_types" }, { "include-no-newline", "#include \"a.h\"" }, { "undef-no-newline", "#undef ZZ" }, { "hash", "#" }, { "hash-unknown", "#zork" },
  { "if-endif-no-newline", "#if 1\nint q;\n#endif" }, { "if0-endif-no-newline", "#if 0\nint q;\n#endif" }, { "if0-open-no-newline", "#if 0\nint q;" }, { "if1-open", "#if 1\nint q;\n" },
  { "else-no-newline", "#if 0\n#else" }, { "ifdef-no-newline", "#ifdef ZZ" },
  { "string-open", "string s = \"abc" }, { "string-open-backslash", "string s = \"abc\\" }, { "char-open", "int ch = 'a" }, { "char-quote", "int ch = '" }, { "char-backslash", "int ch = '\\" },
  { "char-backslash-newline-then-code", "int ch = '\\\n';\nint after_ch;\nint after_fn() { return 6; }\n" }, { "string-backslash-newline-then-code", "string st = \"a\\\nb\";\nint after_st;\n" },
  { "define-continued-empty-line-then-code", "#define ZZ 1 \\\n\nint after_def = ZZ;\n" },
  { "text-block-open", "string s = @T\nabc" }, { "text-block-open-newline", "string s = @T\nabc\n" }, { "text-block-terminator-no-newline", "string s = @T\nabc\nT" },
  { "array-block-open", "string *s = @@T\nabc" }, { "at", "string s = @" }, { "at-name", "string s = @T" },
  { "backslash", "int y; \\" }, { "macro-call-open", "#define ZF(a,b) a\nint y = ZF(1," }, { "macro-call-open-no-arg", "#define ZF(a,b) a\nint y = ZF(" },
  { "function-open", "int g() { return 1;" }, { "functional-open", "mixed g = (: 1 +" }, { "number", "int y = 12" }, { "identifier", "int y" }, { "dot-dot", "int y = 1 .." },
  { "control-byte", "int y;\n\001" }, { "cr-lf", "int y;\r\n" }, { "cr", "int y;\r" },
};
#define NTERM_END ((int) (sizeof TERM_END / sizeof TERM_END[0]))
/* endings of an included file (the includer goes on after it, or ends with the #include line) */
static const struct { const char *name, *text; } TERM_HDR[] = {
  { "newline", "int hv;\n" }, { "no-newline", "int hv;" }, { "line-comment-no-newline", "int hv;\n// c" }, { "block-comment-no-newline", "int hv;\n/* c */" },
  { "define-no-newline", "int hv;\n#define HZ 1" }, { "define-continued", "int hv;\n#define HZ 1 \\" }, { "if-open", "int hv;\n#if 1" }, { "string-open", "string hv = \"abc" },
  { "text-block-open", "string hv = @T\nabc" }, { "block-comment-open", "int hv;\n/* c" }, { "empty", "" },
};
#define NTERM_HDR ((int) (sizeof TERM_HDR / sizeof TERM_HDR[0]))
#define NTERM_PREV 6
static const char *TERM_PREV_NAME[] = { "nothing", "a short file", "a long valid file", "a long file ending in a // comment", "a long file with a syntax error", "a long file ending inside a text block" };

/* sizes (in code bytes) of the filler statements of the code-size family, measured after boot */
static int cs_base[5], cs_sz[5], cs_pz[5], cs_calibrated;

/* (outer function: k live variables + c variables of a block that is closed again) x literal nesting depth 0..3 x (variables of each literal,
 * again with a closed block in the first two): the sum of the enclosing functions' variables crosses every size the locals tables grow by.
 * a = depth | v<<2 (v: variables are locals / arguments)   b = k | c<<8   c = m1 | c1<<8 | c2<<9   d = m2 | m3<<8 */
static void add_litblk (int N) {
  if (N <= 8) {
    for (int v = 0; v < 2; v++) for (int k = 0; k <= N + 1; k++) for (int c = 0; c <= 2; c++) {
      add (SW_LITBLK, 0 | v << 2, k | c << 8, 0, 0);
      for (int m1 = 0; m1 <= N; m1++) {
        add (SW_LITBLK, 1 | v << 2, k | c << 8, m1, 0);
        for (int c1 = 0; c1 <= 1; c1++) for (int m2 = 0; m2 <= N; m2++) {
          add (SW_LITBLK, 2 | v << 2, k | c << 8, m1 | c1 << 8, m2);
          for (int m3 = 0; m3 <= N; m3 += N) add (SW_LITBLK, 3 | v << 2, k | c << 8, m1 | c1 << 8, m2 | m3 << 8);
        }
      }
    }
    return;
  }
  int h = N / 2;
  int K[] = { 0, 1, h, h + 1, N - 1, N }, M1[] = { 0, 1, h - 2, h - 1, h, N - 1, N }, M2[] = { 0, 1, h, h + 1, N - 1, N }, M3[] = { 0, N };
  for (int v = 0; v < 2; v++) for (int ki = 0; ki < 6; ki++) for (int c = 0; c <= 2; c++) {
    int k = K[ki];
    add (SW_LITBLK, 0 | v << 2, k | c << 8, 0, 0);
    for (int i = 0; i < 7; i++) {
      add (SW_LITBLK, 1 | v << 2, k | c << 8, M1[i], 0);
      for (int c1 = 0; c1 <= 1; c1++) for (int j = 0; j < 6; j++) {
        add (SW_LITBLK, 2 | v << 2, k | c << 8, M1[i] | c1 << 8, M2[j]);
        for (int l = 0; l < 2; l++) add (SW_LITBLK, 3 | v << 2, k | c << 8, M1[i] | c1 << 8, M2[j] | M3[l] << 8);
      }
    }
  }
}

void sweep_prepare (int thorough) {
  char dir[PATH_MAX], name[128];
  sb_t t = { 0, 0, 0 };
  int N = c02_maxlocals;
  snprintf (dir, sizeof dir, "%s/c02/sw", c02_lib);
  mkdir (dir, 0755);
  /* include chain: inc_0.h is the leaf, inc_k.h includes inc_(k-1).h  => including inc_k.h nests k+1 deep */
  for (int k = 0; k <= 40; k++) {
    sb_reset (&t);
    if (k) sb_printf (&t, "#include \"inc_%d.h\"\n", k - 1);
    sb_printf (&t, "int inc_var_%d;\n", k);
    snprintf (name, sizeof name, "c02/sw/inc_%d.h", k);
    wfile (name, (char *) t.b);
  }
  for (int k = 0; k < NROLE_NAMES; k++) {
    sb_reset (&t);
    sb_printf (&t, "int %s() { return 11; }\nint other_%d() { return 12; }\n", ROLE_NAMES[k], k);
    snprintf (name, sizeof name, "c02/sw/role_%s.c", ROLE_NAMES[k]);
    wfile (name, (char *) t.b);
  }
  for (int k = 0; k < NTERM_HDR; k++) {
    snprintf (name, sizeof name, "c02/sw/term_h%d.h", k);
    wfile (name, TERM_HDR[k].text);
  }
  for (int k = 0; k < 262; k++) {
    sb_reset (&t);
    sb_printf (&t, "int iv%d;\nint ifn%d() { return %d; }\n", k, k, k);
    snprintf (name, sizeof name, "c02/sw/i%03d.c", k);
    wfile (name, (char *) t.b);
  }
  for (int k = 252; k <= 260; k++) {
    sb_reset (&t);
    for (int i = 0; i < k; i++) sb_printf (&t, "int ov%d() { return %d; }\n", i, i);
    snprintf (name, sizeof name, "c02/sw/ov%d.c", k);
    wfile (name, (char *) t.b);
  }
  free (t.b);

  /* ---- locals / arguments per function */
  { int bs[] = { 0, 1, N - 1, N, N + 1 };
    for (int a = 0; a <= N + 2; a++) for (int j = 0; j < 5; j++) if (bs[j] >= 0) add (SW_LOCALS, a, bs[j], 0, 0); }
  for (int kind = 0; kind < 3; kind++) around (SW_BLOCKLOCALS, N, kind, 0, 0);
  /* ---- nested function literals: k outer locals x m locals in a literal x n in the literals nested inside it */
  if (N <= 8) {
    for (int d = 1; d <= 11; d++) for (int v = 0; v < 3; v++) for (int k = 0; k <= N + 1; k++) for (int m = 0; m <= N + 1; m++) {
      if (d == 1) add (SW_LIT, d * 4 + v, k, m, 0);
      else for (int n = 0; n <= N + 1; n++) add (SW_LIT, d * 4 + v, k, m, n);
    }
  } else {
    int V[] = { 0, 1, N / 2, N - 2, N - 1, N, N + 1, N + 2 };
    for (int d = 1; d <= 11; d++) for (int v = 0; v < 3; v++) for (int i = 0; i < 8; i++) for (int j = 0; j < 8; j++) {
      if (d == 1) { if (V[i] >= N - 2 || V[j] >= N - 2) add (SW_LIT, d * 4 + v, V[i], V[j], 0); }
      else for (int l = 0; l < 8; l++) if (V[i] >= N - 2 || V[j] >= N - 2 || V[l] >= N - 2) add (SW_LIT, d * 4 + v, V[i], V[j], V[l]);
    }
  }
  around (SW_MEMBERS, N, 0, 0, 0);
  if (N != 25) { add_litblk (N); return; }          /* the scaled-down run only sweeps what depends on the limit */

  around (SW_STRINGS, 256, 0, 0, 0);
  around (SW_FUNCS, 256, 0, 0, 0);
  around (SW_GLOBALS, 256, 0, 0, 0);
  around (SW_INHERITS, 256, 0, 0, 0); add (SW_INHERITS, 1, 0, 0, 0); add (SW_INHERITS, 2, 0, 0, 0);
  { int c[] = { 32, 64, 128, 256 }; for (int i = 0; i < 4; i++) around (SW_CLASSES, c[i], 0, 0, 0); }
  { int ks[] = { 1, 2, 3, 4, 5, 8, 9, 16, 17, 255, 256, 257, 1024 };
    for (int kind = 0; kind < 5; kind++) for (int i = 0; i < 13; i++) add (SW_SWITCH, kind, ks[i], 0, 0); }
  for (int d = 28; d <= 36; d++) add (SW_INCDEPTH, d, 0, 0, 0);
  { int ds[] = { 1, 2, 3, 50, 1000 }; for (int kind = 0; kind < 4; kind++) for (int i = 0; i < 5; i++) add (SW_IFDEPTH, kind, ds[i], 0, 0); }
  for (int l = 10; l <= 16; l++) add (SW_EXPAND, 0, l, 0, 0);
  for (int kind = 1; kind <= 3; kind++) add (SW_EXPAND, kind, 0, 0, 0);
  for (int kind = 0; kind < 12; kind++) {
    for (int len = 1000; len <= 1040; len++) add (SW_LINELEN, kind, len, 0, 0);
    for (int len = 250; len <= 262; len++) add (SW_LINELEN, kind, len, 0, 0);
  }
  { int ds[] = { 1, 2, 9, 10, 11, 12, 100, 198, 199, 200, 201, 598, 599, 600, 601, 602, 2000 };
    for (int kind = 0; kind < 10; kind++) for (int i = 0; i < 17; i++) add (SW_NEST, kind, ds[i], 0, 0); }
  for (int i = 0; i < NLITERALS; i++) for (int ctx = 0; ctx < 3; ctx++) add (SW_LITERAL, i, ctx, 0, 0);
  for (int kind = 0; kind < 5; kind++) {
    for (int tgt = 32762; tgt <= 32774; tgt++) add (SW_CODESIZE, kind, tgt, 0, 0);
    for (int tgt = 65526; tgt <= 65544; tgt++) add (SW_CODESIZE, kind, tgt, 0, 0);
  }
  for (int k = 253; k <= 259; k++) add (SW_OVERRIDE, k, 0, 0, 0);
  /* counters that are 16 bits wide: k function literals closed inside a function whose local is named like an efun */
  for (int k = 65533; k <= 65537; k++) add (SW_MANYLITS, k, 0, 0, 0);
  for (int k = 32766; k <= 32769; k++) add (SW_MANYLITS, k, 0, 0, 0);
  add (SW_MANYLITS, 1, 0, 0, 0); add (SW_MANYLITS, 300, 0, 0, 0);
  for (int nm = 0; nm < NROLE_NAMES; nm++) for (int roles = 1; roles < 128; roles++) add (SW_ROLES, nm, roles, 0, 0);
  /* the compile is left before the lexer reaches the end of the file (a = how) while a construct is open (b = which) */
  for (int a = 0; a < 4; a++) for (int b = 0; b < 10; b++) add (SW_ABORT, a, b, 0, 0);
  /* string-switch tables are sorted by the labels' addresses: labels of very different lengths live far apart */
  for (int k = 2; k <= 8; k++) for (int order = 0; order < 2; order++) add (SW_SWITCHSTR, k, order, 0, 0);
  if (thorough) {
    around (SW_STRINGS, 32767, 0, 0, 0); around (SW_STRINGS, 65535, 0, 0, 0);
    around (SW_FUNCS, 32767, 0, 0, 0); around (SW_FUNCS, 65535, 0, 0, 0);
    around (SW_GLOBALS, 32767, 0, 0, 0); around (SW_GLOBALS, 65535, 0, 0, 0);
    { int ks[] = { 4095, 4096, 4097, 6553, 6554, 8192 };
      for (int kind = 0; kind < 5; kind++) for (int i = 0; i < 6; i++) add (SW_SWITCH, kind, ks[i], 0, 0); }
    for (int kind = 0; kind < 12; kind++) {
      for (int len = 4088; len <= 4104; len++) add (SW_LINELEN, kind, len, 0, 0);
      for (int len = 4990; len <= 5010; len++) add (SW_LINELEN, kind, len, 0, 0);
      for (int len = 9980; len <= 10010; len++) add (SW_LINELEN, kind, len, 0, 0);
      add (SW_LINELEN, kind, 20000, 0, 0); add (SW_LINELEN, kind, 70000, 0, 0);
    }
    for (int kind = 0; kind < 10; kind++) { add (SW_NEST, kind, 10000, 0, 0); add (SW_NEST, kind, 100000, 0, 0); }
  }
  /* families added later come last: the indices of the cases above (stored replays) stay what they were */
  add_litblk (N);
  for (int body = 0; body < NTERM_BODY; body++) for (int e = 0; e < NTERM_END + 2 * NTERM_HDR; e++) for (int mode = 0; mode < 2; mode++) for (int prev = 0; prev < NTERM_PREV; prev++) add (SW_TERM, body, e, prev, mode);
  /* text / array blocks are collected in chunks of MAXCHUNK (4096) bytes, at most DEFMAX/MAXCHUNK = 2 of them: a quote or backslash (stored with a
   * protecting backslash) and plain text on every position around the end of the first and of the second chunk.  a = block kind | special << 1,
   * b = which chunk end, c = filler before the special character in the last line */
  for (int kind = 0; kind < 2; kind++) for (int sp = 0; sp < 5; sp++) for (int chunk = 0; chunk < 2; chunk++) for (int k = 40; k <= 130; k++) add (SW_BLOCKCHUNK, kind | sp << 1, chunk, k, 0);
  /* tokens longer than the 255 bytes the scratchpad serves from its own area, pending when the compile is left: a = where, b = length */
  { int lens[] = { 200, 250, 251, 252, 253, 254, 255, 256, 257, 258, 259, 260, 300, 600, 1000 };
    for (int where = 0; where < 24; where++) for (int i = 0; i < 15; i++) add (SW_LONGTOK, where, lens[i], 0, 0); }
}

/* is this case compared with the outcome of another case (the same text compiled with nothing before it)?  -> index of that case, else -1 */
long sweep_ref (long idx) {
  if (idx < 0 || idx >= ncases || cases[idx].fam != SW_TERM) return -1;
  return idx - cases[idx].c;
}
/* must this case start from the locals tables of a freshly booted driver (they only ever grow)? */
/* 0 = the text is read through a file descriptor, 1 = it is handed over as pre_text */
int sweep_mode (long idx) { return (idx >= 0 && idx < ncases && cases[idx].fam == SW_TERM) ? cases[idx].d : 0; }
int sweep_fresh (long idx) { return idx >= 0 && idx < ncases && (cases[idx].fam == SW_LITBLK || cases[idx].fam == SW_LIT || cases[idx].fam == SW_LOCALS || cases[idx].fam == SW_BLOCKLOCALS); }
/* text of the file compiled just before the case (0 = nothing) */
int sweep_prev (long idx, sb_t *o, char *desc, size_t dlen) {
  sb_reset (o);
  if (idx < 0 || idx >= ncases || cases[idx].fam != SW_TERM || !cases[idx].c) return 0;
  int p = cases[idx].c;
  snprintf (desc, dlen, "%s", TERM_PREV_NAME[p]);
  if (p == 1) { sb_puts (o, "int p;\n"); return 1; }
  for (int i = 0; i < 160; i++) {
    if (p == 4 && i == 80) sb_puts (o, "int broken( { return ; }\n");
    sb_printf (o, "int prev_fn_%03d(int a) { return a + %d; }\n", i, i);
  }
  if (p == 3) sb_puts (o, "// the previous file ends in a comment: int stale_a; int stale_fn() { return 77; }");
  if (p == 5) sb_puts (o, "string prev_text() { return @PT\nint stale_b;\nint stale_fn2() { return 78; }\n");
  return 1;
}

long sweep_total (void) { return ncases; }

/* ------------------------------------------------------------------ code-size calibration (needs a booted driver) */
static void cs_program (sb_t *out, int kind, int ns, int np) {
  /* S = "g++;"  P = "g=g;"   the body is placed according to `kind` */
  sb_reset (out);
  sb_puts (out, "int g;\n");
  if (kind == 4) {              /* one global initialiser: its code goes to the initialiser block, which is appended after the functions */
    sb_puts (out, "int f() { return g; }\nint v = (");
    for (int i = 0; i < ns; i++) sb_puts (out, (i & 15) == 15 ? "g++,\n" : "g++,");
    for (int i = 0; i < np; i++) sb_puts (out, "g=g,");
    sb_puts (out, "1);\n");
    return;
  }
  /* the body is one comma expression: statement lists are right-recursive in the grammar and exhaust the parser stack near 600 */
  if (kind == 3) {              /* two functions: the second one starts in the upper half */
    sb_puts (out, "int f() {\n");
    for (int i = 0; i < ns / 2; i++) sb_puts (out, (i & 15) == 15 ? "g++,\n" : "g++,");
    sb_puts (out, "g++;\nreturn g; }\nint h() {\n");
    for (int i = ns / 2; i < ns; i++) sb_puts (out, (i & 15) == 15 ? "g++,\n" : "g++,");
    for (int i = 0; i < np; i++) sb_puts (out, "g=g,");
    sb_puts (out, "g++;\nreturn f(); }\n");
    return;
  }
  sb_puts (out, "int f() {\n");
  if (kind == 1) sb_puts (out, "if (g) {\n");
  if (kind == 2) sb_puts (out, "while (g) {\n");
  for (int i = 0; i < ns; i++) sb_puts (out, (i & 15) == 15 ? "g++,\n" : "g++,");
  for (int i = 0; i < np; i++) sb_puts (out, "g=g,");
  sb_puts (out, "g++;\n");
  if (kind == 1 || kind == 2) sb_puts (out, "}\n");
  sb_puts (out, "return g; }\n");
}

void sweep_calibrate (int (*size_of) (const unsigned char *, size_t)) {
  sb_t t = { 0, 0, 0 };
  for (int kind = 0; kind < 5; kind++) {
    cs_program (&t, kind, 100, 0); int s100 = size_of (t.b, t.n);
    cs_program (&t, kind, 200, 0); int s200 = size_of (t.b, t.n);
    cs_program (&t, kind, 100, 100); int p100 = size_of (t.b, t.n);
    cs_sz[kind] = (s200 - s100) / 100; cs_pz[kind] = (p100 - s100) / 100;
    cs_base[kind] = s100 - 100 * cs_sz[kind];
    if (cs_sz[kind] <= 0 || cs_pz[kind] <= 0 || (s200 - s100) % 100 || (p100 - s100) % 100)
      fprintf (stderr, "sweep: calibration of code-size kind %d is off: %d %d %d\n", kind, s100, s200, p100);
  }
  cs_calibrated = 1;
  free (t.b);
}

int sweep_calibration_export (int *v, int max) {
  int n = 0;
  for (int k = 0; k < 5 && n + 3 <= max; k++) { v[n++] = cs_base[k]; v[n++] = cs_sz[k]; v[n++] = cs_pz[k]; }
  return n;
}
void sweep_calibration_import (const int *v, int n) {
  for (int k = 0; k < 5 && 3 * k + 2 < n; k++) { cs_base[k] = v[3 * k]; cs_sz[k] = v[3 * k + 1]; cs_pz[k] = v[3 * k + 2]; }
  cs_calibrated = 1;
}

/* ------------------------------------------------------------------ generators */
static void decl_list (sb_t *o, const char *pfx, int lvl, int from, int n, int as_args) {
  for (int i = from; i < from + n; i++) sb_printf (o, "%sint %s%d_%d", (i > from) ? ", " : "", pfx, lvl, i);
  (void) as_args;
}

static void gen_lit (sb_t *o, int d, int v, int k, int m, int n) {
  /* level 0 = the enclosing function (k variables), level 1 literal (m), levels 2..d literals (n each) */
  int cnt[16];
  cnt[0] = k; for (int l = 1; l <= d; l++) cnt[l] = (l == 1) ? m : n;
  for (int l = 0; l <= d; l++) {
    int nargs = v == 1 ? cnt[l] : v == 2 ? cnt[l] / 2 : 0, nloc = cnt[l] - nargs;
    if (l == 0) sb_puts (o, "mixed f("); else sb_puts (o, "return function(");
    decl_list (o, "v", l, 0, nargs, 1);
    sb_puts (o, ") {\n");
    if (nloc) { sb_puts (o, "  "); for (int i = nargs; i < cnt[l]; i++) sb_printf (o, "%s v%d_%d", i == nargs ? "int" : ",", l, i); sb_puts (o, ";\n"); }
    if (cnt[l]) sb_printf (o, "  v%d_%d = %d;\n", l, cnt[l] - 1, l);
  }
  sb_printf (o, "  return %s;\n", cnt[d] ? "1" : "2");
  for (int l = d; l >= 1; l--) sb_puts (o, "};\n");
  sb_puts (o, "}\n");
}

static void rep (sb_t *o, const char *s, int n) { for (int i = 0; i < n; i++) sb_puts (o, s); }
static void repc (sb_t *o, char c, int n) { char buf[1024]; memset (buf, c, sizeof buf); while (n > 0) { int k = n > 1024 ? 1024 : n; sb_put (o, buf, (size_t) k); n -= k; } }

int sweep_gen (long idx, sb_t *o, char *desc, size_t dlen) {
  sb_reset (o);
  if (idx < 0 || idx >= ncases) { snprintf (desc, dlen, "out of range"); return 0; }
  scase c = cases[idx];
  snprintf (desc, dlen, "%s(%d,%d,%d,%d) maxlocals=%d", famname[c.fam], c.a, c.b, c.c, c.d, c02_maxlocals);
  switch (c.fam) {
  case SW_LOCALS:
    sb_puts (o, "int f(");
    for (int i = 0; i < c.b; i++) sb_printf (o, "%sint a%d", i ? ", " : "", i);
    sb_puts (o, ") {\n");
    if (c.a) { for (int i = 0; i < c.a; i++) sb_printf (o, "%s l%d", i ? "," : "  int", i); sb_puts (o, ";\n"); }
    if (c.a) sb_printf (o, "  l%d = 1;\n", c.a - 1);
    if (c.b) sb_printf (o, "  a%d = 2;\n", c.b - 1);
    sb_puts (o, "  return 0;\n}\n");
    break;
  case SW_BLOCKLOCALS:
    sb_puts (o, "int f(mixed *arr) {\n  int s;\n");
    for (int i = 0; i < c.a; i++) {
      if (c.b == 0) sb_printf (o, "  { int b%d; b%d = %d; s += b%d; }\n", i, i, i, i);
      else if (c.b == 1) sb_printf (o, "  for (int i%d = 0; i%d < 2; i%d++) s++;\n", i, i, i);
      else sb_printf (o, "  foreach (mixed e%d in arr) s++;\n", i);
    }
    sb_puts (o, "  return s;\n}\n");
    break;
  case SW_LIT:
    gen_lit (o, c.a / 4, c.a % 4, c.b, c.c, c.d);
    break;
  case SW_STRINGS:
    sb_puts (o, "mixed f() {\n  return ({\n");
    for (int i = 0; i < c.a; i++) sb_printf (o, "\"s%d\",%s", i, (i & 15) == 15 ? "\n" : "");
    sb_printf (o, "\n  });\n}\nstring last() { return \"s%d\"; }\n", c.a ? c.a - 1 : 0);
    break;
  case SW_FUNCS:
    for (int i = 0; i < c.a; i++) sb_printf (o, "f%d(){}%s", i, (i & 7) == 7 ? "\n" : " ");
    sb_printf (o, "\nint last() { return f%d(); }\n", c.a ? c.a - 1 : 0);
    { sb_t t = { 0, 0, 0 }; sb_puts (&t, "#pragma no_strict_types\n"); sb_put (&t, o->b, o->n); sb_reset (o); sb_put (o, t.b, t.n); free (t.b); }
    break;
  case SW_GLOBALS:
    for (int i = 0; i < c.a; i++) sb_printf (o, "int g%d;%s", i, (i & 15) == 15 ? "\n" : " ");
    sb_printf (o, "\nint f() { g%d = 5; return g%d + g0; }\n", c.a ? c.a - 1 : 0, c.a ? c.a - 1 : 0);
    break;
  case SW_INHERITS:
    for (int i = 0; i < c.a; i++) sb_printf (o, "inherit \"/c02/sw/i%03d\";\n", i);
    sb_printf (o, "int f() { return ifn%d() + i%03d::ifn%d() + iv%d; }\n", c.a - 1, c.a - 1, c.a - 1, c.a - 1);
    break;
  case SW_CLASSES:
    for (int i = 0; i < c.a; i++) sb_printf (o, "class c%d { int m%d; string n%d; }\n", i, i, i);
    sb_printf (o, "class c%d v;\nint f() { v = new(class c%d); v->m%d = 3; return v->m%d; }\nclass c%d g(class c%d p) { return p; }\n", c.a - 1, c.a - 1, c.a - 1, c.a - 1, c.a - 1, c.a - 1);
    break;
  case SW_MEMBERS:
    sb_puts (o, "class big {\n");
    for (int i = 0; i < c.a; i++) sb_printf (o, "  int m%d;\n", i);
    sb_printf (o, "}\nclass big v;\nint f() { v = new(class big); v->m%d = 1; return v->m%d; }\n", c.a ? c.a - 1 : 0, c.a ? c.a - 1 : 0);
    break;
  case SW_SWITCH:
    sb_puts (o, "int f(mixed a) {\n  switch (a) {\n");
    for (int i = 0; i < c.b; i++) {
      if (c.a == 0) sb_printf (o, "  case %d: return %d;\n", i, i);
      else if (c.a == 1) sb_printf (o, "  case %d: return %d;\n", i * 7 - 20, i);
      else if (c.a == 2) sb_printf (o, "  case %d..%d: return %d;\n", i * 10, i * 10 + 5, i);
      else if (c.a == 3) sb_printf (o, "  case \"s%d\": return %d;\n", i, i);
      else sb_printf (o, "  case %d: return %d;\n", i * 1000003, i);
    }
    if (c.a == 4) sb_puts (o, "  default: return -1;\n");
    sb_puts (o, "  }\n  return -2;\n}\n");
    break;
  case SW_INCDEPTH:
    sb_printf (o, "int before;\n#include \"sw/inc_%d.h\"\nint after;\nint f() { return before + after + inc_var_0; }\n", c.a);
    break;
  case SW_IFDEPTH:
    /* kind 0 balanced true, 1 balanced false (skipping), 2 one #endif missing, 3 one #endif too many */
    for (int i = 0; i < c.b; i++) sb_puts (o, c.a == 1 ? (i ? "#if 1\n" : "#if 0\n") : "#if 1\n");
    sb_puts (o, "int inner;\n");
    for (int i = 0; i < c.b - (c.a == 2) + (c.a == 3); i++) sb_puts (o, "#endif\n");
    sb_puts (o, "int f() { return 1; }\n");
    break;
  case SW_EXPAND:
    if (c.a == 0) {
      sb_puts (o, "#define M0\n");
      for (int i = 1; i <= c.b; i++) sb_printf (o, "#define M%d M%d M%d\n", i, i - 1, i - 1);
      sb_printf (o, "int x = M%d 1;\nint f() { return x; }\n", c.b);
    } else if (c.a == 1) sb_puts (o, "#define R R\nint x = R;\n");
    else if (c.a == 2) sb_puts (o, "#define A B\n#define B A\nint x = A;\n");
    else sb_puts (o, "#define W W W\nint x = W;\n");
    break;
  case SW_LINELEN: {
    int L = c.b;
    switch (c.a) {
    case 0: sb_puts (o, "int "); repc (o, 'a', L); sb_puts (o, ";\n"); break;
    case 1: sb_puts (o, "string s = \""); repc (o, 'b', L); sb_puts (o, "\";\n"); break;
    case 2: sb_puts (o, "int x;"); repc (o, ' ', L); sb_puts (o, "int y;\n"); break;
    case 3: sb_puts (o, "//"); repc (o, 'c', L); sb_puts (o, "\nint x;\n"); break;
    case 4: sb_puts (o, "#define M "); repc (o, '1', L); sb_puts (o, "\nint x;\n"); break;
    case 5: sb_puts (o, "int x;\nint "); repc (o, 'e', L); break;                         /* no newline at end of file */
    case 6: sb_puts (o, "int x = "); repc (o, '7', L); sb_puts (o, ";\n"); break;
    case 7: sb_puts (o, "#include \""); repc (o, 'h', L); sb_puts (o, "\"\nint x;\n"); break;
    case 8: sb_puts (o, "string s = @T\n"); repc (o, 't', L); sb_puts (o, "\nT\n;\n"); break;
    case 9: sb_puts (o, "#define "); repc (o, 'N', L); sb_puts (o, " 1\nint x;\n"); break;
    case 10: sb_puts (o, "#define F("); repc (o, 'p', L); sb_puts (o, ") 1\nint x = F(2);\n"); break;
    case 11: sb_puts (o, "#define F(a) a\nint x = F("); repc (o, '3', L); sb_puts (o, ");\n"); break;
    }
    sb_puts (o, c.a == 5 ? "" : "int f() { return 1; }\n");
    break;
  }
  case SW_NEST: {
    int D = c.b;
    switch (c.a) {
    case 0: sb_puts (o, "int f() {\n"); rep (o, "{", D); sb_puts (o, " return 1; "); rep (o, "}", D); sb_puts (o, "\n}\n"); break;
    case 1: sb_puts (o, "int f() { return "); rep (o, "(", D); sb_puts (o, "1"); rep (o, ")", D); sb_puts (o, "; }\n"); break;
    case 2: sb_puts (o, "mixed f() { return "); rep (o, "({", D); sb_puts (o, "1"); rep (o, "})", D); sb_puts (o, "; }\n"); break;
    case 3: sb_puts (o, "mixed f() { return "); rep (o, "([1:", D); sb_puts (o, "1"); rep (o, "])", D); sb_puts (o, "; }\n"); break;
    case 4: sb_puts (o, "int f(int a) {\n"); rep (o, "if (a) ", D); sb_puts (o, "return 1;\n return 0; }\n"); break;
    case 5: sb_puts (o, "mixed f() { return "); rep (o, "(: ", D); sb_puts (o, "$1"); rep (o, " :)", D); sb_puts (o, "; }\n"); break;
    case 6: sb_puts (o, "mixed f() { "); rep (o, "return function() { ", D); sb_puts (o, "return 1; "); rep (o, "}; ", D); sb_puts (o, "}\n"); break;
    case 7: sb_puts (o, "int f(int a) {\n"); rep (o, "switch (a) { case 1: ", D); sb_puts (o, "return 1; "); rep (o, "}", D); sb_puts (o, "\n return 0; }\n"); break;
    case 8: sb_puts (o, "mixed f() { return "); rep (o, "catch(", D); sb_puts (o, "1"); rep (o, ")", D); sb_puts (o, "; }\n"); break;
    case 9: sb_puts (o, "int f(int a) { return "); rep (o, "a ? 1 : ", D); sb_puts (o, "0; }\n"); break;
    }
    break;
  }
  case SW_LITERAL:
    if (c.b == 0) sb_printf (o, "mixed f() { return %s; }\n", LITERALS[c.a]);
    else if (c.b == 1) sb_printf (o, "mixed g = %s;\n", LITERALS[c.a]);
    else sb_printf (o, "int f(int a) { switch (a) { case %s: return 1; } return 0; }\n", LITERALS[c.a]);
    break;
  case SW_CODESIZE: {
    if (!cs_calibrated || cs_sz[c.a] <= 0 || cs_pz[c.a] <= 0) { snprintf (desc, dlen, "code-size (not calibrated)"); sb_puts (o, "int g;\n"); break; }
    int s = cs_sz[c.a], p = cs_pz[c.a], base = cs_base[c.a];
    /* target = base + ns*s + np*p with the smallest np >= 0 */
    int ns = -1, np = 0;
    for (np = 0; np < s + 64; np++) { int rest = c.b - base - np * p; if (rest >= 0 && rest % s == 0) { ns = rest / s; break; } }
    if (ns < 0) { ns = (c.b - base) / s; np = 0; }
    cs_program (o, c.a, ns, np);
    snprintf (desc, dlen, "code-size kind=%d target=%d (%d*%d+%d*%d+%d)", c.a, c.b, ns, s, np, p, base);
    break;
  }
  case SW_MANYLITS:
    sb_puts (o, "mixed f() {\n  int strlen, sizeof, implode;\n  return ({\n");
    for (int i = 0; i < c.a; i++) sb_puts (o, (i & 7) == 7 ? "function(){},\n" : "function(){},");
    sb_puts (o, "\n  });\n}\n");
    break;
  case SW_SWITCHSTR: {
    static const int lens[] = { 1, 20, 100, 400, 1500, 6000, 30000, 3 };
    sb_puts (o, "int f(string s) {\n  switch (s) {\n");
    for (int i = 0; i < c.a; i++) {
      int j = c.b ? c.a - 1 - i : i;
      sb_puts (o, "  case \""); sb_printf (o, "k%d", j); repc (o, 'a' + j, lens[j]); sb_printf (o, "\": return %d;\n", j);
    }
    sb_puts (o, "  }\n  return -1;\n}\n");
    break;
  }
  case SW_ROLES: {
    const char *n = ROLE_NAMES[c.a]; int r = c.b;
    sb_puts (o, "#pragma no_strict_types\n");
    if (r & 1) sb_printf (o, "inherit \"/c02/sw/role_%s\";\n", n);
    if (r & 2) sb_printf (o, "int %s();\n", n);
    if (r & 4) sb_printf (o, "int %s;\n", n);
    if (r & 8) sb_printf (o, "class %s { int member; }\n", n);
    if (r & 16) sb_printf (o, "int %s() { return 1; }\n", n);
    sb_puts (o, "int user(");
    if (r & 32) sb_printf (o, "int %s", n);
    sb_puts (o, ") {\n");
    if (r & 64) sb_printf (o, "  int %s;\n", n);
    sb_puts (o, "  return 0;\n}\nint tail() { return 2; }\n");
    snprintf (desc, dlen, "name-roles %s:%s%s%s%s%s%s%s", n, r & 1 ? " inherited-function" : "", r & 2 ? " prototype" : "", r & 4 ? " global" : "", r & 8 ? " class" : "",
              r & 16 ? " function" : "", r & 32 ? " argument" : "", r & 64 ? " local" : "");
    break;
  }
  case SW_ABORT: {
    /* how the compile is left early: 0 inherit of a program that is not loaded (the parser accepts at once and the file is compiled
       again later), 1 lexer gives up: illegal text-block terminator, 2 lexer gives up: line too long, 3 lexer gives up: # command without argument */
    static const char *open_[] = { "#if 1\n", "#if 0\nint skipped;\n#else\n", "#ifndef NOT_DEFINED_ANYWHERE\n#ifdef __LPC__\n", "", "mixed g = (: 1 +\n", "int f(int a0, int a1) {\n  int l0, l1, l2;\n  l0 = a0;\n",
                                   "class cc {\n  int m0;\n", "int f(int a) {\n  switch (a) {\n  case 1:\n", "#define CALL(x, y) ((x) + (y))\nint g = CALL(1,\n", "int f(mixed *arr) {\n  foreach (mixed e in arr) {\n    {\n      int deep;\n" };
    static const char *close_[] = { "#endif\n", "#endif\n", "#endif\n#endif\n", "", "2 :);\n", "  return l0;\n}\n", "  int m1;\n}\n", "    return 2;\n  }\n  return 0;\n}\n", "2);\n", "    }\n  }\n  return 0;\n}\n" };
    char ab[1400];
    if (c.a == 0) snprintf (ab, sizeof ab, "inherit \"/c02/sw/i%03d\";\n", 100 + c.b * 4 + c.a);
    else if (c.a == 1) snprintf (ab, sizeof ab, "string s = @ \n");
    else if (c.a == 2) { memset (ab, 'q', 1200); memcpy (ab, "int ", 4); ab[1200] = ';'; ab[1201] = '\n'; ab[1202] = 0; }
    else snprintf (ab, sizeof ab, "#ifdef\n");
    if (c.b == 3) {            /* the abort happens inside an include file, two levels down */
      char nm[64], path[PATH_MAX];
      snprintf (nm, sizeof nm, "c02/sw/abort_%d.h", c.a);
      snprintf (path, sizeof path, "%s/%s", c02_lib, nm);
      FILE *f = fopen (path, "w"); if (f) { fputs ("int in_header_before;\n", f); fputs (ab, f); fputs ("int in_header_after;\n", f); fclose (f); }
      snprintf (nm, sizeof nm, "c02/sw/abort_outer_%d.h", c.a);
      snprintf (path, sizeof path, "%s/%s", c02_lib, nm);
      f = fopen (path, "w"); if (f) { fprintf (f, "#if 1\n#include \"abort_%d.h\"\n#endif\n", c.a); fclose (f); }
      sb_printf (o, "int before;\n#include \"sw/abort_outer_%d.h\"\nint after;\n", c.a);
    } else {
      if (c.a == 0 && c.b >= 4) sb_puts (o, "");           /* an inherit in the middle of a construct is a syntax error as well */
      sb_puts (o, open_[c.b]); sb_puts (o, ab); sb_puts (o, close_[c.b]);
    }
    sb_puts (o, "int tail() { return 1; }\n");
    break;
  }
  case SW_LITBLK: {
    int d = c.a & 3, v = c.a >> 2, cnt[4], closed[4];
    cnt[0] = c.b & 255; closed[0] = c.b >> 8; cnt[1] = c.c & 255; closed[1] = (c.c >> 8) & 1; closed[2] = (c.c >> 9) & 1; cnt[2] = c.d & 255; cnt[3] = c.d >> 8; closed[3] = 0;
    for (int l = 0; l <= d; l++) {
      sb_puts (o, l == 0 ? "mixed f(" : "function(");
      if (v) decl_list (o, "v", l, 0, cnt[l], 1);
      sb_puts (o, ") {\n");
      if (!v && cnt[l]) { sb_puts (o, "  int "); for (int i = 0; i < cnt[l]; i++) sb_printf (o, "%sv%d_%d", i ? ", " : "", l, i); sb_puts (o, ";\n"); }
      if (closed[l]) { sb_puts (o, "  { int "); for (int i = 0; i < closed[l]; i++) sb_printf (o, "%st%d_%d", i ? ", " : "", l, i); sb_printf (o, "; t%d_0 = %d; }\n", l, l + 1); }
      if (cnt[l]) sb_printf (o, "  v%d_%d = %d;\n", l, cnt[l] - 1, l);
      sb_puts (o, l < d ? "  return ({ " : "  return ");
    }
    for (int l = d; l >= 0; l--) {
      if (cnt[l]) sb_printf (o, "v%d_0", l); else sb_printf (o, "%d", l);
      sb_puts (o, l < d ? " })[0];\n}" : ";\n}");
      sb_puts (o, l ? ", " : "\n");
    }
    snprintf (desc, dlen, "literals-and-closed-blocks depth=%d %s outer=%d+%d closed lit1=%d+%d lit2=%d+%d lit3=%d maxlocals=%d", d, v ? "arguments" : "locals", cnt[0], closed[0],
              d >= 1 ? cnt[1] : 0, d >= 1 ? closed[1] : 0, d >= 2 ? cnt[2] : 0, d >= 2 ? closed[2] : 0, d >= 3 ? cnt[3] : 0, c02_maxlocals);
    break;
  }
  case SW_BLOCKCHUNK: {
    static const char *SP[] = { "\"", "\\", "\\\"", "\"\"", "x" };
    static const char *SPN[] = { "quote", "backslash", "backslash-quote", "two-quotes", "plain" };
    int kind = c.a & 1, sp = c.a >> 1, full = c.b ? 8 : 4;
    sb_puts (o, kind ? "string *s = @@END\n" : "string s = @END\n");
    for (int i = 0; i < full; i++) { repc (o, 'a' + i, 1000); sb_puts (o, "\n"); }
    repc (o, 'k', c.c); sb_puts (o, SP[sp]); sb_puts (o, "tail of the line\nlast line\nEND\n;\nint after_block() { return 3; }\n");
    snprintf (desc, dlen, "text-block-chunks %s block, %s after %d lines of 1000 and %d bytes (end of chunk %d)", kind ? "array" : "text", SPN[sp], full, c.c, c.b + 1);
    break;
  }
  case SW_LONGTOK: {
    static const char *WN[] = { "function-name-then-syntax-error", "inherit-of-a-program-that-is-not-loaded", "string-then-syntax-error", "identifier-at-end-of-file", "string-at-end-of-file",
      "two-strings-then-syntax-error", "define-name", "define-body-then-syntax-error", "identifier-in-functional-then-end-of-file", "class-name-then-syntax-error", "valid-function-name", "valid-string",
      "undefined-variable", "undefined-function", "undefined-class", "global-declared-twice", "function-defined-twice", "unknown-inherit-label", "unknown-efun", "unknown-class-member",
      "include-not-found", "unknown-pragma", "unknown-directive", "argument-declared-twice" };
    int L = c.b;
    switch (c.a) {
    case 0: sb_puts (o, "int "); repc (o, 'f', L); sb_puts (o, "( { return 1; }\nint tail() { return 2; }\n"); break;
    case 1: sb_puts (o, "inherit \"/c02/sw/"); repc (o, 'p', L); sb_puts (o, "\";\nint tail() { return 2; }\n"); break;
    case 2: sb_puts (o, "string f() { return \""); repc (o, 's', L); sb_puts (o, "\" + ; }\n"); break;
    case 3: sb_puts (o, "int x;\nint "); repc (o, 'i', L); break;
    case 4: sb_puts (o, "string f() { return \""); repc (o, 's', L); sb_puts (o, "\""); break;
    case 5: sb_puts (o, "string f() { return \""); repc (o, 's', L); sb_puts (o, "\" \""); repc (o, 't', L); sb_puts (o, "\" ) ; }\n"); break;
    case 6: sb_puts (o, "#define "); repc (o, 'D', L > 250 ? 250 : L); sb_puts (o, " 1\nint x = "); repc (o, 'D', L > 250 ? 250 : L); sb_puts (o, " + ;\n"); break;
    case 7: sb_puts (o, "#define DD \""); repc (o, 'd', L); sb_puts (o, "\"\nstring x = DD DD + ;\n"); break;
    case 8: sb_puts (o, "mixed g = (: "); repc (o, 'n', L); break;
    case 9: sb_puts (o, "class "); repc (o, 'c', L); sb_puts (o, " { int m; \nint f( { }\n"); break;
    case 10: sb_puts (o, "int "); repc (o, 'f', L); sb_puts (o, "() { return 1; }\nint tail() { return "); repc (o, 'f', L); sb_puts (o, "(); }\n"); break;
    case 11: sb_puts (o, "string f() { return \""); repc (o, 's', L); sb_puts (o, "\"; }\n"); break;
    /* a message that quotes the name */
    case 12: sb_puts (o, "int f() { return "); repc (o, 'u', L); sb_puts (o, "; }\n"); break;
    case 13: sb_puts (o, "int f() { return "); repc (o, 'u', L); sb_puts (o, "(1); }\n"); break;
    case 14: sb_puts (o, "class "); repc (o, 'u', L); sb_puts (o, " v;\nint f() { return 1; }\n"); break;
    case 15: sb_puts (o, "int "); repc (o, 'g', L); sb_puts (o, ";\nstring "); repc (o, 'g', L); sb_puts (o, ";\n"); break;
    case 16: sb_puts (o, "int "); repc (o, 'f', L); sb_puts (o, "() { return 1; }\nint "); repc (o, 'f', L); sb_puts (o, "() { return 2; }\n"); break;
    case 17: sb_puts (o, "int f() { return "); repc (o, 'l', L); sb_puts (o, "::create(); }\n"); break;
    case 18: sb_puts (o, "int f() { return efun::"); repc (o, 'e', L); sb_puts (o, "(); }\n"); break;
    case 19: sb_puts (o, "class cc { int m; }\nint f() { class cc v = new(class cc); return v->"); repc (o, 'm', L); sb_puts (o, "; }\n"); break;
    case 20: sb_puts (o, "#include \""); repc (o, 'h', L); sb_puts (o, ".h\"\nint f() { return 1; }\n"); break;
    case 21: sb_puts (o, "#pragma "); repc (o, 'p', L); sb_puts (o, "\nint f() { return 1; }\n"); break;
    case 22: sb_puts (o, "#"); repc (o, 'd', L); sb_puts (o, " 1\nint f() { return 1; }\n"); break;
    case 23: sb_puts (o, "int f(int "); repc (o, 'a', L); sb_puts (o, ", int "); repc (o, 'a', L); sb_puts (o, ") { return 1; }\n"); break;
    }
    snprintf (desc, dlen, "long-tokens %s length=%d", WN[c.a], L);
    break;
  }
  case SW_TERM: {
    const char *en;
    sb_puts (o, TERM_BODY[c.a]);
    if (c.b < NTERM_END) { sb_puts (o, TERM_END[c.b].text); en = TERM_END[c.b].name; }
    else {
      int h = (c.b - NTERM_END) % NTERM_HDR, last = (c.b - NTERM_END) / NTERM_HDR;
      static char nm[100];
      sb_printf (o, "#include \"sw/term_h%d.h\"%s", h, last ? "" : "\nint after_inc;\nint after_fn() { return 5; }\n");
      snprintf (nm, sizeof nm, "include-of-header-ending-%s%s", TERM_HDR[h].name, last ? "-as-last-line-no-newline" : "");
      en = nm;
    }
    snprintf (desc, dlen, "file-termination body=%s ending=%s %s after %s", TERM_BODY_NAME[c.a], en, c.d ? "as-pre_text" : "from-file", TERM_PREV_NAME[c.c]);
    break;
  }
  case SW_OVERRIDE:
    sb_printf (o, "inherit \"/c02/sw/ov%d\";\n", c.a > 260 ? 260 : c.a < 252 ? 252 : c.a);
    for (int i = 0; i < c.a; i++) sb_printf (o, "int ov%d() { return %d + ::ov%d(); }\n", i, 1000 + i, i);
    sb_printf (o, "int f() { return ov0() + ov%d(); }\n", c.a - 1);
    break;
  }
  return 0;
}
