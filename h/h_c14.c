/* C14 — output reaches the client in order, exactly once, under any write pattern.
 *
 * The real add_message()/add_vmessage()/flush_message()/process_io()/get_user_command()/remove_interactive()
 * run on the scripted runtime (env/net.c).  One execution = one fresh connection, a scenario of <= 3 writes
 * with flush points between them, and an answer chosen at every send() (all / each partial count /
 * EWOULDBLOCK / EINTR / EPIPE).
 *
 * Reference: a FIFO fed with the LF->CRLF expansion of every write.  At every send() the offered bytes must be
 * exactly the next pending bytes of the FIFO (order, exactly once); after every write the driver's ring must
 * hold exactly the FIFO minus a dropped tail of the message just added, and a tail may be dropped only if the
 * ring could not take the next unit (or the connection is dead); nothing is sent after EPIPE; ring indices
 * consistent; bytes pending at a poll => write interest on.
 *
 * Two drivers over the same code:  --explore : scenario by vx_choose_free, send answers by vx_choose (deviation
 * budget);  --enum : scenario = element index, send answers enumerated by an in-process DFS with the same
 * deviation budget (--budget=B), every execution again a fresh connection on the real code.
 *
 * Build variants: h_c14s8 / h_c14s16 (wrap/w_comm_scaled.c, logical MESSAGE_BUF_SIZE 8 / 16, struct layout
 * unchanged, rest of message_buf[] is a canary) and h_c14 (real 4096).
 */
#include "hx.h"
#include "net.h"
#include "src/comm.h"
#include "src/main.h"

extern int vw_msg_size (void);
#define REAL_MSG ((int) sizeof (((interactive_t *) 0)->message_buf))
#define MAXW 3
#define MAXCH 96

typedef struct { int len, lf; } wr_t;
typedef struct { int nw; wr_t w[MAXW]; int after[MAXW]; int ending, kind, pre; } scen_t;
enum { A_NONE, A_EFUN, A_CYCLE, A_WRITE_EV, N_AFTER };
static const char *after_name[] = { "next-write-at-once", "flush_messages()", "cycle(per-cycle flush)", "cycle+EVENT_WRITE" };
static const char *kind_name[] = { "receive()", "add_vmessage()" };

static int SZ, selftest, explore_mode, budget;
static scen_t SC;
static env_cli *C;
static object_t *user_ob;
static int ph, step, in_pre, aborted, drain_cycles, closing;
/* reference FIFO */
static unsigned char mq[1 << 16]; static int mq_head, mq_tail, m_dead;
static long n_exec, n_sends, n_dropped_tails, n_devs, n_wraps, n_spurious_interest;
static int run_devs, run_drops, run_wrap;
static long run_sends, written_total;
static int in_write, blocked_len_max;      /* during a write: largest ring fill seen at a send() that was answered would-block */
static unsigned gctr;

/* ------------------------------------------------------------------ choices */
static int dfs_prefix[MAXCH], dfs_plen, dfs_tr[MAXCH], dfs_n[MAXCH], dfs_len, dfs_overflow;
static int choice (int n, const char *label) {
  if (n <= 1) return 0;
  if (explore_mode) return vx_choose (n, label);
  int pos = dfs_len;
  if (pos >= MAXCH) { dfs_overflow = 1; return 0; }
  int c = pos < dfs_plen ? dfs_prefix[pos] : 0;
  if (c >= n) c = 0;
  dfs_tr[pos] = c; dfs_n[pos] = n; dfs_len++;
  return c;
}

/* ------------------------------------------------------------------ reporting */
static void describe_scen (const scen_t *s, char *buf, size_t len) {
  size_t o = (size_t) snprintf (buf, len, "ring=%d via %s start-offset=%d:", SZ, kind_name[s->kind], s->pre);
  for (int i = 0; i < s->nw; i++) {
    o += (size_t) snprintf (buf + o, len - o, " write(%d bytes", s->w[i].len);
    if (s->w[i].lf >= 0) o += (size_t) snprintf (buf + o, len - o, ", LF at %d", s->w[i].lf);
    o += (size_t) snprintf (buf + o, len - o, ") %s;", after_name[s->after[i]]);
  }
  o += (size_t) snprintf (buf + o, len - o, " %s", s->ending ? "hang-up at once" : "drain, hang-up");
}
static char answers[400];
static void failx (const char *key, const char *fmt, ...) {
  char msg[300], d[400]; va_list ap;
  va_start (ap, fmt); vsnprintf (msg, sizeof msg, fmt, ap); va_end (ap);
  describe_scen (&SC, d, sizeof d);
  vx_fail (key, "%s :: %s :: send answers:%s", msg, d, answers);
  vx_obs ("!! %s: %s :: %s :: send answers:%s", key, msg, d, answers);
  aborted = 1;
}

/* ------------------------------------------------------------------ state checks */
static interactive_t *cur_ip (void) {
  if (!all_users || !C) return 0;
  for (int i = 1; i < max_users; i++) if (all_users[i] && all_users[i]->fd == C->fd && !C->driver_closed) return all_users[i];
  return 0;
}
static void check_state (const char *when) {
  interactive_t *ip = cur_ip ();
  if (!ip || aborted) return;
  int p = ip->message_producer, c = ip->message_consumer, l = ip->message_length;
  if (p < 0 || p >= SZ || c < 0 || c >= SZ || l < 0 || l > SZ || (l != ((p - c) % SZ + SZ) % SZ && !(l == SZ && p == c))) {
    failx ("C14:ring-indices-inconsistent", "%s: producer=%d consumer=%d length=%d size=%d", when, p, c, l, SZ);
    return;
  }
  for (int i = SZ; i < REAL_MSG; i++)
    if ((unsigned char) ip->message_buf[i] != 0xA5) { failx ("C14:overflow:write-past-MESSAGE_BUF_SIZE", "%s: message_buf[%d] (logical size %d) overwritten", when, i, SZ); return; }
  if (m_dead) return;
  if (l != mq_tail - mq_head) { failx ("C14:ring-length-differs-from-bytes-written-minus-sent", "%s: ring holds %d bytes, reference %d", when, l, mq_tail - mq_head); return; }
  for (int i = 0; i < l; i++)
    if ((unsigned char) ip->message_buf[(c + i) % SZ] != mq[mq_head + i]) {
      failx ("C14:ring-content-differs-from-pending-bytes", "%s: pending byte %d is 0x%02x, must be 0x%02x", when, i, (unsigned char) ip->message_buf[(c + i) % SZ], mq[mq_head + i]);
      return;
    }
  if (l && c + l > SZ) run_wrap = 1;
}

static long send_hook (env_cli *c, const void *buf, size_t len) {
  n_sends++;
  (void) c;
  /* once an execution has failed it is ended at once: the socket is gone (also ends a flush loop that no longer terminates) */
  if (aborted) return -EPIPE;
  /* backstop against a send loop that never ends in the code under test: a correct driver needs at most one send() per pending
   * byte plus one per refused attempt, and can never get more bytes accepted than were written */
  run_sends++;
  if (run_sends > written_total + 4 * SZ + 64) {
    failx ("C14:runaway-send-loop", "%ld send() calls in one execution for %ld bytes written (ring %d): flush_message() does not terminate", run_sends, written_total, SZ);
    return -EPIPE;
  }
  if (m_dead) { failx ("C14:send-after-EPIPE", "send() of %zu bytes after the socket answered EPIPE", len); return -EPIPE; }
  int pend = mq_tail - mq_head;
  if (len == 0 || (int) len > pend || memcmp (buf, mq + mq_head, len)) {
    char a[80] = "", b[80] = ""; size_t o = 0;
    for (size_t i = 0; i < len && i < 24; i++) o += (size_t) snprintf (a + o, sizeof a - o, "%02x", ((const unsigned char *) buf)[i]);
    o = 0; for (int i = 0; i < pend && i < 24; i++) o += (size_t) snprintf (b + o, sizeof b - o, "%02x", mq[mq_head + i]);
    failx ("C14:sent-bytes-are-not-the-next-pending-bytes", "send() offered %zu bytes %s, the next pending bytes are %s (%d)", len, a, b, pend);
    return (long) len;
  }
  long ans;
  if (in_pre) ans = (long) len;
  else {
    /* alternatives: 0 all | partial counts | EWOULDBLOCK | EINTR | EPIPE */
    int part[8], np = 0;
    if (SZ <= 64) np = (int) len - 1;
    else { int cand[3] = { 1, (int) len - 1, (int) len / 2 }; for (int i = 0; i < 3; i++) { int k = cand[i], dup = 0; for (int j = 0; j < np; j++) if (part[j] == k) dup = 1; if (k > 0 && k < (int) len && !dup) part[np++] = k; } }
    int ch = choice (1 + np + 3, "send");
    if (ch == 0) ans = (long) len;
    else if (ch <= np) ans = SZ <= 64 ? ch : part[ch - 1];
    else if (ch == np + 1) ans = -EWOULDBLOCK;
    else if (ch == np + 2) ans = -EINTR;
    else ans = -EPIPE;
    if (ch) run_devs++;
    size_t o = strlen (answers);
    if (o < sizeof answers - 24) {
      if (ans >= 0) snprintf (answers + o, sizeof answers - o, " %ld/%zu", ans, len);
      else snprintf (answers + o, sizeof answers - o, " %s", ans == -EWOULDBLOCK ? "EWOULDBLOCK" : ans == -EINTR ? "EINTR" : "EPIPE");
    }
  }
  if (selftest == 1 && ans > 1 && ans < (long) len) { mq_head += (int) ans; return ans - 1; }  /* broken environment: reports more than it took */
  if (ans >= 0) mq_head += (int) ans;
  else if (ans == -EPIPE) m_dead = 1;
  else if (in_write) { interactive_t *ip = cur_ip (); if (ip && ip->message_length > blocked_len_max) blocked_len_max = ip->message_length; }
  return ans;
}

/* ------------------------------------------------------------------ the writes */
static char mbuf[2 * 4096 + 64]; static unsigned char ex[2 * (2 * 4096 + 64)];
static void build_msg (int len, int lf, int *elen) {
  int e = 0;
  for (int i = 0; i < len; i++) {
    char ch = (i == lf) ? '\n' : (char) (0x30 + (gctr++ % 75));
    mbuf[i] = ch;
    if (ch == '\n') ex[e++] = '\r';
    ex[e++] = (unsigned char) ch;
  }
  mbuf[len] = 0;
  *elen = e;
}
static int call_w (void) { copy_and_push_string (mbuf); return hx_apply (user_ob, "w", 1) == 0; }
static int call_fl (void) { push_number (0); return hx_apply (user_ob, "fl", 1) == 0; }

static void issue_write (int len, int lf, int kind) {
  int elen; build_msg (len, lf, &elen);
  int before_dead = m_dead;
  if (mq_tail + elen > (int) sizeof mq) { aborted = 1; return; }
  written_total += elen;
  memcpy (mq + mq_tail, ex, (size_t) elen); mq_tail += elen;      /* optimistic: the dropped tail is removed below */
  in_write = 1; blocked_len_max = -1;
  if (kind == 0 && len >= 8192) add_message (user_ob, mbuf);   /* receive() refuses strings of 8192 bytes and more: call add_message() as tell_object() would */
  else if (kind == 0) { if (call_w ()) failx ("C14:harness:lpc-error", "w() raised an error: %s", hx_last_error); }
  else add_vmessage (user_ob, "%s", mbuf);
  in_write = 0;
  if (aborted) return;
  interactive_t *ip = cur_ip ();
  if (!ip) { failx ("C14:connection-vanished-during-write", "the interactive was removed while writing"); return; }
  if (selftest == 2 && elen > 2 && !m_dead && ip->message_length > 1) { ip->message_buf[(ip->message_consumer + 1) % SZ] ^= 1; }   /* broken world: a pending byte flips */
  int real = ip->message_length, model = mq_tail - mq_head, dropped = model - real;
  if (m_dead) {                 /* the connection is dead: whatever was not sent is lost, the ring is not looked at any more */
    mq_tail = mq_head;
    return;
  }
  if (dropped < 0 || dropped > elen) { failx ("C14:ring-length-differs-from-bytes-written-minus-sent", "after a write of %d (+CR: %d) bytes the ring holds %d bytes, reference %d", len, elen, real, model); return; }
  if (dropped > 0) {
    unsigned char first = ex[elen - dropped];
    int need = first == '\r' ? 2 : 1;
    mq_tail -= dropped;
    run_drops++;
    if (first == '\n' && elen - dropped >= 1 && ex[elen - dropped - 1] == '\r')
      failx ("C14:CRLF-split-by-dropped-tail", "the tail dropped from the message starts between CR and LF");
    else if (before_dead) { }
    /* permitted only when the ring could not take the next unit at a moment the socket refused data during this write */
    else if (blocked_len_max >= 0 && blocked_len_max + need > SZ) { }
    else failx ("C14:tail-dropped-although-ring-had-room", "write of %d bytes: %d bytes dropped; fullest ring at a refused send() during the write: %d of %d (now %d)", len, dropped, blocked_len_max, SZ, real);
  }
  check_state ("after write");
}

/* ------------------------------------------------------------------ scenario as a coroutine of backend() */
static int wait_hook (io_event_t *ev, int max, struct timeval *tmo) {
  (void) max; (void) tmo;
  interactive_t *ip;
  switch (ph) {
  case 0:
    C = env_connect (1);        /* the ASCII port: no driver-originated output on connect */
    ph = 1;
    return env_ev_listen (ev, 0, 1);
  case 1:
    ip = cur_ip ();
    if (!ip) { failx ("C14:harness:no-connection", "connection was not established"); env_shutdown (); ph = 9; return 0; }
    user_ob = ip->ob;
    memset (ip->message_buf, 0xA5, (size_t) REAL_MSG);  /* new_interactive() leaves it indeterminate */
    mq_head = mq_tail = 0; m_dead = 0; step = 0; drain_cycles = 0; closing = 0;
    ph = 2;
    if (SC.pre > 0) {           /* move the ring's start position: a write that is flushed completely by the next cycle */
      in_pre = 1;
      issue_write (SC.pre, -1, 1);
      in_pre = 1; ph = 11;
      return 0;
    }
    /* fall through */
  case 2:
  steps:
    in_pre = 0;
    ip = cur_ip ();
    if (aborted) { ph = 4; goto hangup; }
    if (!ip) { failx ("C14:connection-vanished", "the interactive was removed by the driver"); env_shutdown (); ph = 9; return 0; }
    check_state ("poll");
    if (!m_dead && ip->message_length > 0 && !(ip->iflags & NET_DEAD) && !(C->interest & EVENT_WRITE))
      failx ("C14:pending-output-without-write-interest", "%d bytes pending at poll time but EVENT_WRITE is not requested", ip->message_length);
    if (ip->message_length == 0 && (C->interest & EVENT_WRITE)) n_spurious_interest++;
    while (step < SC.nw && !aborted) {
      int i = step++;
      issue_write (SC.w[i].len, SC.w[i].lf, SC.kind);
      if (aborted) break;
      switch (SC.after[i]) {
      case A_EFUN: if (call_fl ()) failx ("C14:harness:lpc-error", "fl() raised an error"); check_state ("after flush_messages()"); break;
      case A_CYCLE: return 0;
      case A_WRITE_EV: return (C->interest & EVENT_WRITE) ? env_ev_cli (ev, 0, C, EVENT_WRITE) : 0;
      default: break;
      }
    }
    ph = SC.ending ? 4 : 3;
    if (ph == 4) goto hangup;
    /* fall through */
  case 3:
    ip = cur_ip ();
    if (aborted) { ph = 4; goto hangup; }
    if (!ip) { failx ("C14:connection-vanished", "the interactive was removed by the driver"); env_shutdown (); ph = 9; return 0; }
    check_state ("drain");
    if (!m_dead && ip->message_length > 0 && !(C->interest & EVENT_WRITE))
      failx ("C14:pending-output-without-write-interest", "%d bytes pending at poll time but EVENT_WRITE is not requested", ip->message_length);
    if (m_dead || ip->message_length == 0) { ph = 4; goto hangup; }
    if (++drain_cycles > 4 * SZ + 64) { failx ("C14:output-never-drains", "%d bytes still pending after %d cycles in which the socket accepted data", ip->message_length, drain_cycles); ph = 4; goto hangup; }
    return (C->interest & EVENT_WRITE) ? env_ev_cli (ev, 0, C, EVENT_WRITE) : 0;
  case 4:
  hangup:
    closing = 1;
    env_client_close (C);
    ph = 5;
    if (!cur_ip ()) { env_shutdown (); ph = 9; return 0; }
    return env_ev_cli (ev, 0, C, EVENT_CLOSE);       /* remove_interactive(): last flush, then close */
  case 5:
    if (cur_ip () && !aborted) failx ("C14:harness:not-closed", "connection still there after the hang-up event");
    env_shutdown (); ph = 9;
    return 0;
  case 11:                      /* after the start-offset write */
    ip = cur_ip ();
    if (ip && ip->message_length) { failx ("C14:harness:pre-write-not-flushed", "start-offset write still pending"); }
    ph = 2;
    goto steps;
  default:
    env_shutdown ();
    return 0;
  }
}

static void run_scenario (void) {
  ph = 0; C = 0; aborted = 0; in_pre = 0; answers[0] = 0; run_devs = run_drops = run_wrap = 0; run_sends = written_total = 0;
  gctr = 0;
  g_proceeding_shutdown = 0;
  MAIN_OPTION (console_mode) = 0;
  env_wait_hook = wait_hook; env_send_hook = send_hook; env_recv_hook = 0;
  backend ();
  for (int i = 0; i < 5; i++) if (external_port[i].port && external_port[i].fd >= 0) { close (external_port[i].fd); external_port[i].fd = -1; env_listen_fd[i] = -1; }
  for (int i = 0; i < ENV_MAXCLI; i++) env_clients[i].used = 0;
  g_proceeding_shutdown = 0;
  n_exec++;
  vx_count (0, 1); vx_count (1, C ? C->n_send : 0); vx_count (2, run_drops); vx_count (3, (run_devs || run_drops || run_wrap) ? 1 : 0);
  vx_count (4, run_devs); vx_count (5, run_wrap);
  if (vx_replaying () || explore_mode) { char d[400]; describe_scen (&SC, d, sizeof d); vx_obs ("%s :: answers:%s :: accepted %zu bytes, tails dropped %d", d, answers, C ? C->out_len : 0, run_drops); }
}

/* ------------------------------------------------------------------ scenario alphabets */
static wr_t V[400]; static int nV;
static int PRE[16], nPRE;
static int nw_opt = 2, lfeach = 6, kinds = 2, longlf = 4;   /* longlf: LF variants for lengths > lfeach: 2 = none/last, 3 = +first, 4 = +at size-1 */
static void build_alphabet (void) {
  int maxlen = (int) vx_opt_long ("maxlen", 2 * SZ + 1);
  if (SZ <= 64) {
    for (int len = 0; len <= maxlen; len++) {
      V[nV++] = (wr_t) { len, -1 };
      if (len <= lfeach) for (int p = 0; p < len; p++) V[nV++] = (wr_t) { len, p };
      else {
        V[nV++] = (wr_t) { len, len - 1 };
        if (longlf >= 3) V[nV++] = (wr_t) { len, 0 };
        if (longlf >= 4) V[nV++] = (wr_t) { len, SZ - 1 < len ? SZ - 1 : len / 2 };
      }
    }
    const char *pm = vx_opt ("pre", "two");
    if (!strcmp (pm, "all")) for (int p = 0; p < SZ; p++) PRE[nPRE++] = p;
    else if (!strcmp (pm, "none")) PRE[nPRE++] = 0;
    else { PRE[nPRE++] = 0; PRE[nPRE++] = SZ - 1; PRE[nPRE++] = SZ - 3; }
  } else {
    int lens[] = { 0, 1, 2, 5, 7, SZ - 6, SZ - 1, SZ, SZ + 1, 2 * SZ - 1, 2 * SZ, 2 * SZ + 1 };
    for (unsigned i = 0; i < sizeof lens / sizeof lens[0]; i++) {
      int len = lens[i];
      V[nV++] = (wr_t) { len, -1 };
      if (len >= 1) { V[nV++] = (wr_t) { len, len - 1 }; V[nV++] = (wr_t) { len, 0 }; }
      if (len >= 4) { V[nV++] = (wr_t) { len, len / 2 }; V[nV++] = (wr_t) { len, len - 2 }; }
    }
    int pres[] = { 0, SZ - 1, SZ - 2, SZ - 3, SZ - 6, SZ / 2 };
    for (unsigned i = 0; i < sizeof pres / sizeof pres[0]; i++) PRE[nPRE++] = pres[i];
  }
}
static long scen_total (void) {
  long t = (long) nPRE * 2 * kinds;
  for (int i = 0; i < nw_opt; i++) t *= (long) nV * N_AFTER;
  return t;
}
static void scen_decode (long idx, scen_t *s) {
  memset (s, 0, sizeof *s);
  s->nw = nw_opt;
  s->pre = PRE[idx % nPRE]; idx /= nPRE;
  s->ending = (int) (idx % 2); idx /= 2;
  s->kind = (int) (idx % kinds); idx /= kinds;
  for (int i = nw_opt - 1; i >= 0; i--) {
    s->after[i] = (int) (idx % N_AFTER); idx /= N_AFTER;
    s->w[i] = V[idx % nV]; idx /= nV;
  }
}

/* enum mode: one element = one scenario; all send-answer vectors within the deviation budget, depth first */
typedef struct { int n; int c[MAXCH]; int cost; } work_t;
static work_t *stack; static int wsp, scap;
static void push_work (const int *c, int n, int alt, int cost) {
  if (wsp == scap) { scap = scap ? scap * 2 : 256; stack = realloc (stack, sizeof (work_t) * (size_t) scap); }
  work_t *w = &stack[wsp++];
  memcpy (w->c, c, sizeof (int) * (size_t) n); w->c[n] = alt; w->n = n + 1; w->cost = cost;
}
static void elem_scen (long idx) {
  safe_apply_master_ob ("clear_mlog", 0);       /* the verification master logs every connect(): keep that array small */
  scen_decode (idx, &SC);
  wsp = 0;
  int first = 1;
  work_t cur; cur.n = 0; cur.cost = 0;
  for (;;) {
    if (!first) { if (!wsp) break; cur = stack[--wsp]; }
    first = 0;
    memcpy (dfs_prefix, cur.c, sizeof (int) * (size_t) cur.n); dfs_plen = cur.n; dfs_len = 0; dfs_overflow = 0;
    run_scenario ();
    if ((n_exec & 4095) == 0) safe_apply_master_ob ("clear_mlog", 0);
    if (dfs_overflow) vx_fail ("C14:harness:too-many-send-calls", "more than %d choice points in one execution", MAXCH);
    for (int i = dfs_len - 1; i >= cur.n; i--)
      if (cur.cost + 1 <= budget)
        for (int alt = dfs_n[i] - 1; alt >= 1; alt--) push_work (dfs_tr, i, alt, cur.cost + 1);
  }
}
static void describe (long idx, char *buf, size_t len) { scen_t s; scen_decode (idx, &s); describe_scen (&s, buf, len); }

/* explore mode: the scenario is a sequence of free choices over a boundary alphabet, the send answers are vx_choose */
static void body (void) {
  int lens[8], nl = 0;
  lens[nl++] = 0; lens[nl++] = 1; lens[nl++] = 3; lens[nl++] = SZ - 1; lens[nl++] = SZ; lens[nl++] = SZ + 1; lens[nl++] = 2 * SZ + 1;
  memset (&SC, 0, sizeof SC);
  safe_apply_master_ob ("clear_mlog", 0);
  SC.nw = 1 + vx_choose_free (nw_opt, "writes");
  SC.kind = vx_choose_free (kinds, "via");
  SC.pre = PRE[vx_choose_free (nPRE, "start")];
  for (int i = 0; i < SC.nw; i++) {
    SC.w[i].len = lens[vx_choose_free (nl, "len")];
    int lfsel = SC.w[i].len ? vx_choose_free (3, "lf") : 0;
    SC.w[i].lf = lfsel == 0 ? -1 : lfsel == 1 ? SC.w[i].len - 1 : 0;
    SC.after[i] = vx_choose_free (N_AFTER, "then");
  }
  SC.ending = vx_choose_free (2, "end");
  run_scenario ();
}

int main (int argc, char **argv) {
  char mud[PATH_MAX];
  vx_init_args (argc, argv);
  snprintf (mud, sizeof mud, "%s/mudlib/base", hx_verif_dir ());
  hx_boot (mud, "Port 4000:telnet\nPort 4001:ascii\nPort 4002:binary\n", 0);
  push_constant_string ("user_file"); push_constant_string ("/c14/user.c");
  safe_apply_master_ob ("set_policy", 2);
  SZ = vw_msg_size ();
  selftest = (int) vx_opt_long ("selftest", 0);
  budget = (int) vx_opt_long ("budget", 1);
  nw_opt = (int) vx_opt_long ("nw", 2);
  if (nw_opt < 1) nw_opt = 1; if (nw_opt > MAXW) nw_opt = MAXW;
  lfeach = (int) vx_opt_long ("lfeach", 6);
  kinds = (int) vx_opt_long ("kinds", 2);
  longlf = (int) vx_opt_long ("longlf", 4);
  explore_mode = 1;
  for (int i = 1; i < argc; i++) if (!strcmp (argv[i], "--enum") || !strncmp (argv[i], "--replay-index", 14)) explore_mode = 0;
  build_alphabet ();
  vx_count_name (0, "executions"); vx_count_name (1, "send_calls"); vx_count_name (2, "tails_dropped"); vx_count_name (3, "nontrivial");
  vx_count_name (4, "send_deviations"); vx_count_name (5, "executions_with_wrapped_pending_data");
  vx_set_enum (scen_total (), elem_scen, describe);
  return vx_run (argc, argv, body);
}

/* a fresh 6 KB interactive_t per execution: keep ASan's quarantine small so that memory (and page-fault time) does not grow */
const char *__asan_default_options (void) { return "quarantine_size_mb=16"; }
