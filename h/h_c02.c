/* C02 — compiling any source text is safe and leaves the compiler reusable (DESIGN §3 C02).
 *
 * vx --enum over inputs.  Every input is compiled by the real compile_file() (production path: source read
 * through a file descriptor; optionally the pre_text path) in a forked child of the initialised driver.
 * Oracle per input:  the compile returns; prog != 0 || num_parse_error > 0; no sanitizer report; no exit;
 * canonical residual state of the compiler (statics of compiler.c, lex.c/preprocess.c, identifier.c,
 * scratchpad.c, icode.c, parse_trees.c, generate.c read through wrapper TUs) == baseline s0;
 * and the fixed probe program compiled right after the input dumps to the baseline dump.
 *
 * parts (--part=):  bytes2 | class | tok | edit | sweep | hist
 */
#include "hx.h"
#include "progdump.h"
#include "h_c02.h"
#include <sys/mman.h>
#include <sys/stat.h>
#include <fcntl.h>
#include <stdarg.h>
#include <sys/wait.h>
#include <sys/syscall.h>

extern int vw_c02_compiler_state (char *, int), vw_c02_lex_state (char *, int), vw_c02_ident_state (char *, int), vw_c02_scratch_state (char *, int),
  vw_c02_icode_state (char *, int), vw_c02_ptrees_state (char *, int), vw_c02_generate_state (char *, int);
extern void vw_c02_ident_snapshot (void);
extern void vw_c02_reset_locals (void);
extern int64_t context;         /* grammar.y */

/* ------------------------------------------------------------------ small utilities */
void sb_reset (sb_t *s) { s->n = 0; if (s->b) s->b[0] = 0; }
void sb_put (sb_t *s, const void *p, size_t n) {
  if (s->n + n + 1 > s->cap) { while (s->n + n + 1 > s->cap) s->cap = s->cap ? s->cap * 2 : 4096; s->b = realloc (s->b, s->cap); }
  memcpy (s->b + s->n, p, n); s->n += n; s->b[s->n] = 0;
}
void sb_puts (sb_t *s, const char *z) { sb_put (s, z, strlen (z)); }
void sb_printf (sb_t *s, const char *fmt, ...) {
  char t[2048]; va_list ap; va_start (ap, fmt); int k = vsnprintf (t, sizeof t, fmt, ap); va_end (ap);
  if (k > 0) sb_put (s, t, (size_t) k >= sizeof t ? sizeof t - 1 : (size_t) k);
}

int c02_maxlocals = 25;
const char *c02_lib;
static char libdir[PATH_MAX];
static const char *part = "bytes2";
static int selftest, probe_every = 1, thorough, tok_len = 4, tok_min = 0, class_len = 3, class_min = 3, hist_len = 2, verbose, edit_subst_progs = 1000;
static int src_fd = -1;

static char *slurp (const char *path, size_t *len) {
  FILE *f = fopen (path, "rb");
  if (!f) return 0;
  sb_t s = { 0, 0, 0 };
  char buf[8192]; size_t k;
  sb_put (&s, "", 0);
  while ((k = fread (buf, 1, sizeof buf, f)) > 0) sb_put (&s, buf, k);
  fclose (f);
  if (len) *len = s.n;
  return (char *) s.b;
}

static void printable (const unsigned char *t, size_t n, char *out, size_t cap) {
  size_t k = 0;
  for (size_t i = 0; i < n && k + 6 < cap; i++) {
    unsigned char c = t[i];
    if (c == '\n') { out[k++] = '\\'; out[k++] = 'n'; }
    else if (c == '\\') { out[k++] = '\\'; out[k++] = '\\'; }
    else if (c < 0x20 || c >= 0x7f) k += (size_t) snprintf (out + k, cap - k, "\\x%02x", c);
    else out[k++] = (char) c;
  }
  out[k] = 0;
}

/* ------------------------------------------------------------------ compile-error messages (smart_log is --wrap'ped) */
static char msgs[6000];
static int msgs_len, msgs_count;
void __real_smart_log (char *, int, char *, int);
void __wrap_smart_log (char *file, int line, char *what, int flag) {
  if (!flag) msgs_count++;
  if (msgs_len < (int) sizeof msgs - 300)
    msgs_len += snprintf (msgs + msgs_len, sizeof msgs - (size_t) msgs_len, "%s%s:%d: %.200s\n", flag ? "W " : "", file ? file : "?", line, what ? what : "?");
  __real_smart_log (file, line, what, flag);
}

/* ------------------------------------------------------------------ canonical residual state */
#define STATE_MAX 65536
static int capture_state (char *buf) {
  int n = 0;
  n += vw_c02_compiler_state (buf + n, STATE_MAX - n);
  n += vw_c02_lex_state (buf + n, STATE_MAX - n);
  n += vw_c02_scratch_state (buf + n, STATE_MAX - n);
  n += vw_c02_icode_state (buf + n, STATE_MAX - n);
  n += vw_c02_ptrees_state (buf + n, STATE_MAX - n);
  n += vw_c02_generate_state (buf + n, STATE_MAX - n);
  n += snprintf (buf + n, STATE_MAX - n, "D simulate.inherit_file=%s\nP grammar.context=%lld\n", inherit_file ? inherit_file : "(null)", (long long) context);
  n += vw_c02_ident_state (buf + n, STATE_MAX - n - 8);
  buf[n] = 0;
  return n;
}

/* compare the lines of class `cls` ('D' direct, or 0 = D and P) of two state texts; C lines may only grow.
 * returns 0 if equal, else fills field/detail with the first difference */
static int state_diff (const char *base, const char *now, int direct_only, char *field, size_t fl, char *detail, size_t dl) {
  const char *a = base, *b = now;
  for (;;) {
    /* skip lines that are not compared */
    while (direct_only && *a == 'P') { const char *e = strchr (a, '\n'); a = e ? e + 1 : a + strlen (a); }
    while (direct_only && *b == 'P') { const char *e = strchr (b, '\n'); b = e ? e + 1 : b + strlen (b); }
    if (!*a && !*b) return 0;
    const char *ea = strchr (a, '\n'), *eb = strchr (b, '\n');
    size_t na = ea ? (size_t) (ea - a) : strlen (a), nb = eb ? (size_t) (eb - b) : strlen (b);
    int same = (na == nb && !memcmp (a, b, na));
    if (!same && a[0] == 'C' && b[0] == 'C') {
      const char *va = memchr (a, '=', na), *vb = memchr (b, '=', nb);
      if (va && vb && (size_t) (va - a) == (size_t) (vb - b) && !memcmp (a, b, (size_t) (va - a)) && atol (vb + 1) >= atol (va + 1)) same = 1;
    }
    if (!same) {
      /* per-identifier deviation lines exist only in the deviating state */
      const char *l = (!strncmp (b, "D ident[", 8) || !*a) ? b : a;
      size_t nl = (l == b) ? nb : na;
      const char *eq = memchr (l, '=', nl);
      size_t k = eq ? (size_t) (eq - l - 2) : (nl > 2 ? nl - 2 : 0);
      if (k >= fl) k = fl - 1;
      memcpy (field, l + 2, k); field[k] = 0;
      if (!strncmp (field, "ident[", 6)) snprintf (field, fl, "ident.binding");
      snprintf (detail, dl, "fresh [%.*s] now [%.*s]", (int) (na > 200 ? 200 : na), a, (int) (nb > 200 ? 200 : nb), b);
      return 1;
    }
    a = ea ? ea + 1 : a + na; b = eb ? eb + 1 : b + nb;
  }
}

static int tainted_flag;
static char base_state[STATE_MAX], now_state[STATE_MAX];
/* ------------------------------------------------------------------ one compile */
typedef struct {
  int have_prog, nerr, escaped, problems, nfun, nvar;
  uint64_t hash;
  char *dump;                   /* malloc'ed when wanted */
  char err[300];                /* text of a runtime error that escaped compile_file() */
  char msg[1500];               /* compile messages */
} outcome_t;

struct cargs { const char *name; int fd; const char *pre; program_t *prog; };
static void do_compile (void *p) { struct cargs *a = p; a->prog = compile_file (a->fd, a->name, a->pre); }
struct largs { const char *name; object_t *ob; };
static void do_load (void *p) { struct largs *a = p; a->ob = load_object (a->name, 0); }

static int put_source (const unsigned char *t, size_t n) {
  static pid_t owner;
  if (src_fd < 0 || owner != getpid ()) { src_fd = memfd_create ("c02src", 0); owner = getpid (); }   /* never shared between children */
  if (ftruncate (src_fd, 0)) {}
  size_t off = 0;
  while (off < n) { ssize_t w = pwrite (src_fd, t + off, n - off, (off_t) off); if (w <= 0) break; off += (size_t) w; }
  lseek (src_fd, 0, SEEK_SET);
  return src_fd;
}

/* mode 0: through a file descriptor (what load_object() does); mode 1: pre_text (text must be NUL-free) */
static void compile_input (const char *name, const unsigned char *text, size_t len, int mode, outcome_t *o, int want_dump) {
  struct cargs a;
  int tries = 0;
  memset (o, 0, sizeof *o);
  for (;;) {
    a.name = name; a.prog = 0;
    if (mode == 0) { a.fd = put_source (text, len); a.pre = 0; }
    else { a.fd = -1; a.pre = (const char *) text; }
    msgs_len = 0; msgs[0] = 0; msgs_count = 0;
    int esc = hx_guard (do_compile, &a);
    if (esc) { o->escaped = 1; snprintf (o->err, sizeof o->err, "%.280s", hx_last_error); }
    o->nerr = num_parse_error;
    snprintf (o->msg, sizeof o->msg, "%.1400s", msgs);
    if (!esc && inherit_file && tries++ < 400) {
      /* the program wants to inherit something that is not loaded: load it as load_object() would and retry */
      char inh[PATH_MAX];
      struct largs l;
      snprintf (inh, sizeof inh, "%s", inherit_file);
      FREE (inherit_file); inherit_file = 0;
      if (base_state[0]) {
        /* compile_file() has returned (the parser accepted at the inherit statement): nothing of this pass may be left either */
        char field[120], detail[500], key[220];
        capture_state (now_state);
        if (state_diff (base_state, now_state, 1, field, sizeof field, detail, sizeof detail)) {
          snprintf (key, sizeof key, "C02:residual:%s", field);
          vx_fail (key, "%s: left behind by the pass that stopped at an inherit of a program that was not loaded yet: %s", name, detail);
          tainted_flag = 1;
        }
      }
      if (a.prog) free_prog (a.prog, 1);
      l.name = inh; l.ob = 0;
      if (hx_guard (do_load, &l) || !l.ob) {
        /* load_object() reports "Inherited file does not exist" / the inherited file's own errors: a failed compile with a report */
        o->nerr = o->nerr ? o->nerr : 1;
        snprintf (o->msg, sizeof o->msg, "inherit of %.200s failed: %.200s\n", inh, hx_last_error);
        if (inherit_file) { FREE (inherit_file); inherit_file = 0; }
        return;
      }
      continue;
    }
    break;
  }
  if (a.prog && !o->escaped) {
    o->have_prog = 1;
    o->nfun = a.prog->num_functions_defined; o->nvar = a.prog->num_variables_total;
    char *d = pd_dump (a.prog, 0);
    o->problems = pd_last_problems ();
    o->hash = pd_hash (d);
    if (want_dump || o->problems) o->dump = d; else free (d);
    free_prog (a.prog, 1);
  }
}

/* ------------------------------------------------------------------ baseline (computed in the parent) */
static unsigned char *probe_text; static size_t probe_len;
static outcome_t base_probe;

static void first_problem (const char *dump, char *out, size_t n) {
  const char *p = strstr (dump, "!! ");
  if (!p) { snprintf (out, n, "?"); return; }
  /* the key names the kind of problem: the text up to the first number */
  size_t k = 0;
  for (p += 3; *p && *p != '\n' && k + 1 < n; p++) {
    if (*p >= '0' && *p <= '9') break;
    if (p[-1] == ' ') {           /* a word made of hex digits only is an address */
      const char *q = p; int hex = 0;
      while ((*q >= '0' && *q <= '9') || (*q >= 'a' && *q <= 'f')) { q++; hex++; }
      if (hex >= 3 && (*q == ' ' || *q == ':' || *q == '\n' || !*q || *q == '-')) break;
    }
    out[k++] = *p == ' ' ? '-' : *p;
  }
  while (k && out[k - 1] == '-') k--;
  out[k] = 0;
}

/* a detected leftover would also taint the verdict of every later element of this batch: run those in a fresh child */
static void tainted (void) { vx_enum_restart (); }

static void check_probe (const char *when) {
  outcome_t o;
  char field[120], detail[500];
  compile_input ("c02/probe.c", probe_text, probe_len, 0, &o, 1);
  vx_count (2, 1);
  if (o.escaped) vx_fail ("C02:probe-differs:runtime-error", "%s: compiling the probe raised a runtime error: %s", when, o.err);
  else if (!o.have_prog) {
    /* key = what the first message says (without file and line): different leftovers break the next compile differently */
    char key[200], cls[80]; size_t k = 0;
    const char *m = strstr (o.msg, ": ");
    for (m = m ? m + 2 : o.msg; *m && *m != '\n' && *m != '\'' && *m != '(' && !(*m >= '0' && *m <= '9') && k + 1 < sizeof cls; m++) cls[k++] = *m == ' ' ? '-' : *m;
    while (k && (cls[k - 1] == '-' || cls[k - 1] == '.')) k--;
    cls[k] = 0;
    snprintf (key, sizeof key, "C02:probe-differs:no-program:%s", cls);
    vx_fail (key, "%s: the probe no longer compiles (%d errors): %.300s", when, o.nerr, o.msg);
  }
  else if (o.nerr != base_probe.nerr || strcmp (o.msg, base_probe.msg)) vx_fail ("C02:probe-differs:messages", "%s: probe messages differ: [%.200s] vs baseline [%.200s]", when, o.msg, base_probe.msg);
  else if (o.hash != base_probe.hash || (selftest == 1)) {
    char d[400] = "(selftest: baseline dump corrupted)";
    if (o.dump) pd_diff (base_probe.dump, o.dump, d, sizeof d);
    vx_fail ("C02:probe-differs:dump", "%s: dump of the probe differs from the fresh-driver dump: %s", when, d);
    tainted ();
  }
  int probe_ok = !o.escaped && o.have_prog && o.nerr == base_probe.nerr;
  free (o.dump);
  capture_state (now_state);
  if (probe_ok && state_diff (base_state, now_state, 0, field, sizeof field, detail, sizeof detail)) {
    char key[200]; snprintf (key, sizeof key, "C02:residual-after-probe:%s", field);
    vx_fail (key, "%s: compiler state after compiling the probe differs from the fresh-driver state: %s", when, detail);
    tainted ();
  }
  if (!probe_ok) tainted ();
}

/* everything that is checked after one input has been compiled */
static void check_after_input (outcome_t *o, const char *what) {
  char field[120], detail[500], key[220];
  if (o->escaped) {
    char cls[60]; size_t k = 0;
    for (const char *p = o->err; *p && k < sizeof cls - 1; p++) { if (*p == '\n' || *p == '\'' || *p == ':' || (*p >= '0' && *p <= '9')) break; cls[k++] = *p == ' ' ? '-' : *p; }
    cls[k] = 0;
    snprintf (key, sizeof key, "C02:runtime-error-escaped-compile:%s", cls);
    vx_fail (key, "%s: compile_file() was left by a runtime error (%s)", what, o->err);
  } else if (!o->have_prog && o->nerr == 0) vx_fail ("C02:no-program-and-no-error", "%s: compile_file() returned no program and reported no error", what);
  if (o->have_prog && o->nerr > 0) vx_fail ("C02:program-despite-errors", "%s: a program was returned although %d errors were reported: %.200s", what, o->nerr, o->msg);
  if (o->problems) {
    char pk[200]; first_problem (o->dump ? o->dump : "", pk, sizeof pk);
    snprintf (key, sizeof key, "C02:malformed-program:%.150s", pk);
    vx_fail (key, "%s: the compiled program is structurally inconsistent: %s", what, pk);
  }
  free (o->dump); o->dump = 0;
  capture_state (now_state);
  if (selftest == 2) { char *eq = strstr (now_state, "D compiler.current_number_of_locals="); if (eq) eq[36] = '7'; }
  if (state_diff (base_state, now_state, 1, field, sizeof field, detail, sizeof detail)) {
    snprintf (key, sizeof key, "C02:residual:%s", field);
    vx_fail (key, "%s: compiler state left behind differs from the fresh-driver state: %s", what, detail);
    tainted ();
  }
  vx_count (o->have_prog ? 0 : 1, 1);
  if ((o->have_prog && (o->nfun || o->nvar)) || o->nerr) vx_count (3, 1);
}

static char last_sig[1800];     /* outcome of the last input, for cases that are compared with the same text compiled in another history */
static void outcome_sig (outcome_t *o, char *out, size_t n) {
  snprintf (out, n, "program=%d errors=%d escaped=%d hash=%llx problems=%d messages=[%.1500s]", o->have_prog, o->nerr, o->escaped, (unsigned long long) o->hash, o->problems, o->msg);
  for (char *q = out; *q; q++) if (*q == '\n') *q = '|';
}

static void run_input (const unsigned char *text, size_t len, int mode, const char *label) {
  outcome_t o;
  tainted_flag = 0;
  compile_input ("c02/in.c", text, len, mode, &o, 0);
  if (tainted_flag) tainted ();
  outcome_sig (&o, last_sig, sizeof last_sig);
  if (verbose) vx_obs ("%s -> prog=%d nerr=%d esc=%d hash=%llx msg=%.300s", label, o.have_prog, o.nerr, o.escaped, (unsigned long long) o.hash, o.msg);
  check_after_input (&o, label);
  if (probe_every == 1 || (vx_enum_index () % probe_every) == 0 || vx_replaying ()) check_probe (label);
}

/* ------------------------------------------------------------------ part: bytes2 */
#define B2 65793L
static size_t gen_bytes2 (long idx, unsigned char *b, int *mode) {
  long r = idx % B2;
  *mode = (int) (idx / B2);
  if (r == 0) return 0;
  if (r <= 256) { b[0] = (unsigned char) (r - 1); return 1; }
  r -= 257; b[0] = (unsigned char) (r >> 8); b[1] = (unsigned char) (r & 255);
  return 2;
}

/* ------------------------------------------------------------------ part: class (one representative per arm of the lexer's character switches) */
static const unsigned char CLS[] = { 'a', 'L', 'x', 'e', '_', '0', '1', '9', ' ', '\t', '\n', '\r', '+', '-', '&', '|', '^', '<', '>', '*', '%', '/', '=', '(', ')', '{', '}', '[', ']', ';',
  ',', '~', '?', '!', ':', '.', '#', '$', '\'', '@', '"', '\\', 0x00, 0x80, 0xFF };
#define NCLS ((long) sizeof CLS)
static long ipow (long b, int e) { long r = 1; while (e-- > 0) r *= b; return r; }
static long class_total (void) { long t = 0; for (int l = class_min; l <= class_len; l++) t += ipow (NCLS, l); return t; }
static size_t gen_class (long idx, unsigned char *b) {
  int l = class_min;
  while (idx >= ipow (NCLS, l)) { idx -= ipow (NCLS, l); l++; }
  for (int i = l - 1; i >= 0; i--) { b[i] = CLS[idx % NCLS]; idx /= NCLS; }
  return (size_t) l;
}

/* ------------------------------------------------------------------ part: tok */
static const char *TOK[] = { "int", "string", "mixed", "x", "f", "(", ")", "{", "}", ";", ",", "=", "1", "\"s\"", "return", "(:", ":)", "[", "]", "..",
  "\n#define x", "\n#if", "\n#endif", "\n#include \"a.h\"", "@TXT\nline one\n \"two\"\nTXT\n", "\n" };
#define NTOK 26L
static const char *PROLOGUE = "int g; string h;\nmixed f(int a, string b) {\n  int l; mixed m;\n  ";
static const char *EPILOGUE = "\n  ; return 0;\n}\nint k() { return 1; }\n";
static long tok_strings (void) { long t = 0; for (int l = tok_min; l <= tok_len; l++) t += ipow (NTOK, l); return t; }
static void gen_tok (long idx, sb_t *out) {
  long per = tok_strings ();
  int ctx = (int) (idx / per), l = tok_min, d[16];
  idx %= per;
  while (idx >= ipow (NTOK, l)) { idx -= ipow (NTOK, l); l++; }
  for (int i = l - 1; i >= 0; i--) { d[i] = (int) (idx % NTOK); idx /= NTOK; }
  sb_reset (out);
  if (ctx) sb_puts (out, PROLOGUE);
  for (int i = 0; i < l; i++) { if (i && TOK[d[i]][0] != '\n') sb_puts (out, " "); sb_puts (out, TOK[d[i]]); }
  if (ctx) sb_puts (out, EPILOGUE);
}

/* ------------------------------------------------------------------ part: edit (single-token deletion / duplication / substitution of a corpus) */
typedef struct { char **tok; int n; char name[64]; } cprog_t;
static cprog_t *corpus; static int ncorpus; static long *edit_prefix;

/* a token = a directive line ("#..." up to the newline, with the newline before it), a newline, a string literal,
 * a character literal, a text block, or a maximal run of non-space characters */
static void tokenize (const char *s, cprog_t *c) {
  int cap = 256; c->tok = malloc (sizeof (char *) * (size_t) cap); c->n = 0;
  int bol = 1;
  while (*s) {
    const char *st = s;
    if (*s == ' ' || *s == '\t' || *s == '\r') { s++; continue; }
    if (*s == '\n') { s++; bol = 1; }
    else if (*s == '#' && bol) { while (*s && *s != '\n') { if (*s == '\\' && s[1] == '\n') s++; s++; } bol = 0; }
    else if (*s == 'L' && (s[1] == '"' || s[1] == '\'')) { char q = s[1]; s += 2; while (*s && *s != q && *s != '\n') { if (*s == '\\' && s[1]) s++; s++; } if (*s == q) s++; bol = 0; }
    else if (*s == '"') { s++; while (*s && *s != '"') { if (*s == '\\' && s[1]) s++; s++; } if (*s) s++; bol = 0; }
    else if (*s == '\'' ) { s++; while (*s && *s != '\'' && *s != '\n') { if (*s == '\\' && s[1]) s++; s++; } if (*s == '\'') s++; bol = 0; }
    else if (*s == '@' && s[1] != '@' && (s[1] == '_' || (s[1] >= 'A' && s[1] <= 'Z'))) {
      char term[40]; int k = 0; const char *q = s + 1;
      while ((*q == '_' || (*q >= 'A' && *q <= 'Z') || (*q >= '0' && *q <= '9')) && k < 39) term[k++] = *q++;
      term[k] = 0;
      const char *e = q;
      for (;;) { const char *nl = strchr (e, '\n'); if (!nl) { e += strlen (e); break; } e = nl + 1; if (!strncmp (e, term, (size_t) k) && (e[k] == '\n' || !e[k])) { e += k; if (*e == '\n') e++; break; } }
      s = e; bol = 1;
    }
    else if (*s == '/' && s[1] == '/') { while (*s && *s != '\n') s++; continue; }
    else if (*s == '/' && s[1] == '*') { s += 2; while (*s && !(*s == '*' && s[1] == '/')) s++; if (*s) s += 2; continue; }
    else { while (*s && *s != ' ' && *s != '\t' && *s != '\n' && *s != '\r' && *s != '"' && *s != '\'') s++; bol = 0; }
    size_t n = (size_t) (s - st);
    if (c->n == cap) { cap *= 2; c->tok = realloc (c->tok, sizeof (char *) * (size_t) cap); }
    char *t = malloc (n + 2);
    if (st[0] == '#') { t[0] = '\n'; memcpy (t + 1, st, n); t[n + 1] = 0; }   /* directives carry their own line start */
    else { memcpy (t, st, n); t[n] = 0; }
    c->tok[c->n++] = t;
  }
}

static void load_corpus (void) {
  char dir[PATH_MAX], path[PATH_MAX];
  snprintf (dir, sizeof dir, "%s/c02/corpus", libdir);
  corpus = calloc (128, sizeof *corpus);
  for (int i = 0; i < 128; i++) {
    snprintf (path, sizeof path, "%s/p%02d.c", dir, i);
    char *t = slurp (path, 0);
    if (!t) break;
    tokenize (t, &corpus[ncorpus]);
    snprintf (corpus[ncorpus].name, sizeof corpus[ncorpus].name, "p%02d", i);
    free (t);
    ncorpus++;
  }
  edit_prefix = calloc ((size_t) ncorpus + 1, sizeof (long));
  for (int i = 0; i < ncorpus; i++) edit_prefix[i + 1] = edit_prefix[i] + 1 + (2 + (i < edit_subst_progs ? NTOK : 0)) * corpus[i].n;
}
static long edit_total (void) { return edit_prefix[ncorpus]; }
static void emit_tok (sb_t *out, const char *t) {
  if (out->n && t[0] != '\n' && out->b[out->n - 1] != '\n') sb_puts (out, " ");
  sb_puts (out, t);
}
static void gen_edit (long idx, sb_t *out, char *desc, size_t dl) {
  int p = 0;
  while (idx >= edit_prefix[p + 1]) p++;
  long r = idx - edit_prefix[p];
  cprog_t *c = &corpus[p];
  int kind = -1, pos = -1, sub = -1;          /* kind 0 delete, 1 duplicate, 2 substitute */
  long per = 2 + (p < edit_subst_progs ? NTOK : 0);   /* deletion, duplication, and (for the first --edit-subst-progs programs) every substitution */
  if (r > 0) { r--; pos = (int) (r / per); int k = (int) (r % per); if (k == 0) kind = 0; else if (k == 1) kind = 1; else { kind = 2; sub = k - 2; } }
  sb_reset (out);
  for (int i = 0; i < c->n; i++) {
    if (i == pos) {
      if (kind == 0) continue;
      if (kind == 1) { emit_tok (out, c->tok[i]); emit_tok (out, c->tok[i]); continue; }
      emit_tok (out, TOK[sub]);
      continue;
    }
    emit_tok (out, c->tok[i]);
  }
  if (kind < 0) snprintf (desc, dl, "%s unedited", c->name);
  else {
    char tp[60]; printable ((unsigned char *) c->tok[pos], strlen (c->tok[pos]) > 40 ? 40 : strlen (c->tok[pos]), tp, sizeof tp);
    snprintf (desc, dl, "%s token %d [%s] %s%s", c->name, pos, tp, kind == 0 ? "deleted" : kind == 1 ? "duplicated" : "replaced by ", kind == 2 ? (TOK[sub][0] == '\n' ? TOK[sub] + 1 : TOK[sub]) : "");
    for (char *q = desc; *q; q++) if (*q == '\n') *q = ' ';
  }
}

/* ------------------------------------------------------------------ part: hist (ordered pairs / triples of state-leaving candidates, via load_object) */
#define NHIST 25
static char hist_alone[NHIST][1800];     /* outcome of each candidate when it is the first thing compiled */
static long hist_total (void) { return ipow (NHIST, hist_len); }

static void hist_outcome (int k, char *out, size_t n) {
  char name[64];
  struct largs l;
  snprintf (name, sizeof name, "c02/hist/h%02d", k);
  msgs_len = 0; msgs[0] = 0; msgs_count = 0;
  l.name = name; l.ob = 0;
  int esc = hx_guard (do_load, &l);
  if (inherit_file) { FREE (inherit_file); inherit_file = 0; }
  uint64_t h = 0; int problems = 0;
  if (!esc && l.ob) {
    char *d = pd_dump (l.ob->prog, 0);
    h = pd_hash (d); problems = pd_last_problems ();
    free (d);
    destruct_object (l.ob);
    remove_destructed_objects ();
  }
  char e[200]; snprintf (e, sizeof e, "%.190s", esc ? hx_last_error : "");
  for (char *q = e; *q; q++) if (*q == '\n') *q = ' ';
  snprintf (out, n, "loaded=%d hash=%llx problems=%d error=[%s] messages=[%.1300s]", (!esc && l.ob) ? 1 : 0, (unsigned long long) h, problems, e, msgs);
}

static void run_hist (long idx) {
  int d[4], n = hist_len;
  char label[120] = "", got[1800], field[120], detail[500], key[220];
  for (int i = n - 1; i >= 0; i--) { d[i] = (int) (idx % NHIST); idx /= NHIST; }
  for (int i = 0; i < n; i++) {
    snprintf (label + strlen (label), sizeof label - strlen (label), "%sh%02d", i ? "," : "", d[i]);
    hist_outcome (d[i], got, sizeof got);
    if (strcmp (got, hist_alone[d[i]])) {
      snprintf (key, sizeof key, "C02:history-changes-result:h%02d", d[i]);
      vx_fail (key, "after [%s] loading h%02d gives {%.400s} but in a fresh driver {%.400s}", label, d[i], got, hist_alone[d[i]]);
    }
    capture_state (now_state);
    if (state_diff (base_state, now_state, 1, field, sizeof field, detail, sizeof detail)) {
      snprintf (key, sizeof key, "C02:residual:%s", field);
      vx_fail (key, "history [%s]: compiler state left behind differs from the fresh-driver state: %s", label, detail);
      tainted ();
    }
  }
  vx_count (3, 1);
  check_probe (label);
}

/* ------------------------------------------------------------------ part: histpol (histories under master policies)
 * The applies the driver makes while compile_file() is running (log_error for every message, valid_override for efun::,
 * valid_save_binary, error_handler for an error raised in one of them) are LPC code: each of them plain / calling a loaded
 * object / calling an object that has to be compiled first (refused during a compile) / raising an error.
 * hist-len 1: every combination of the four applies x 30 candidates (h00..h24 of part hist, efun:: uses, #pragma save_binary, tokens of 300 bytes pending at an error / at an inherit); hist-len >= 2: one apply at a time x all ordered tuples,
 * each step compared with its outcome in a fresh driver under the same policy. */
#define NHISTP 30
#define NHOOK 4
#define NPOL1 13
static const char *HOOK[NHOOK] = { "log_error", "valid_override", "valid_save_binary", "error_handler" };
static const char *ACT[4] = { "plain", "calls-loaded-object", "loads-new-object", "raises-error" };
static char pol_alone[NPOL1][NHISTP][1800];
/* tuples: one apply at a time; --pol-small=1: only the applies made during every compile x the actions that can fail there */
static int pol_small;
static const int POL_SMALL[7] = { 0, 2, 3, 5, 6, 8, 9 };
static int npol (void) { return pol_small ? 7 : NPOL1; }
static long histpol_total (void) { return hist_len <= 1 ? 256L * NHISTP : npol () * ipow (NHISTP, hist_len); }
static void pol_decode (long idx, int *act, long *tuple) {
  if (hist_len <= 1) { long p = idx / NHISTP; *tuple = idx % NHISTP; for (int h = 0; h < NHOOK; h++) act[h] = (int) ((p >> (2 * h)) & 3); }
  else { long per = ipow (NHISTP, hist_len); int p = (int) (idx / per); if (pol_small) p = POL_SMALL[p]; *tuple = idx % per; for (int h = 0; h < NHOOK; h++) act[h] = 0; if (p) act[(p - 1) / 3] = (p - 1) % 3 + 1; }
}
static void pol_set (const int *act) {
  for (int h = 0; h < NHOOK; h++) {
    char k[64]; snprintf (k, sizeof k, "c02_%s", HOOK[h]);
    copy_and_push_string (k); push_number (act ? act[h] : 0);
    hx_apply (master_ob, "set_policy", 2);
  }
}
static void pol_cleanup (void) {
  /* objects the policies loaded are gone again before the next element of this child */
  for (int h = 0; h < NHOOK; h++) {
    char n[80]; snprintf (n, sizeof n, "c02/pol/fresh_%s", HOOK[h]);
    object_t *ob = hx_find (n);
    if (ob) destruct_object (ob);
  }
  remove_destructed_objects ();
  hx_apply (master_ob, "clear_errors", 0);
}
static void pol_label (const int *act, char *out, size_t n) {
  size_t k = 0; out[0] = 0;
  for (int h = 0; h < NHOOK; h++) if (act[h]) k += (size_t) snprintf (out + k, n - k, "%s%s %s", k ? ", " : "", HOOK[h], ACT[act[h]]);
  if (!k) snprintf (out, n, "plain master");
}

static void run_histpol (long idx) {
  int act[NHOOK], d[4], n = hist_len < 1 ? 1 : hist_len;
  long tuple;
  char label[300], pl[160], got[1800], field[120], detail[500], key[220];
  pol_decode (idx, act, &tuple);
  pol_label (act, pl, sizeof pl);
  for (int i = n - 1; i >= 0; i--) { d[i] = (int) (tuple % NHISTP); tuple /= NHISTP; }
  int pidx = 0; for (int h = 0; h < NHOOK; h++) if (act[h]) pidx = 1 + 3 * h + act[h] - 1;
  snprintf (label, sizeof label, "[%s]", pl);
  pol_set (act);
  for (int i = 0; i < n; i++) {
    snprintf (label + strlen (label), sizeof label - strlen (label), " h%02d", d[i]);
    hist_outcome (d[i], got, sizeof got);
    if (n > 1 && strcmp (got, pol_alone[pidx][d[i]])) {
      snprintf (key, sizeof key, "C02:history-changes-result:h%02d", d[i]);
      vx_fail (key, "%s: loading h%02d gives {%.400s} but in a fresh driver with the same master policy {%.400s}", label, d[i], got, pol_alone[pidx][d[i]]);
    }
    capture_state (now_state);
    if (state_diff (base_state, now_state, 1, field, sizeof field, detail, sizeof detail)) {
      snprintf (key, sizeof key, "C02:residual:%s", field);
      vx_fail (key, "history %s: compiler state left behind differs from the fresh-driver state: %s", label, detail);
      tainted ();
    }
  }
  pol_set (0);
  pol_cleanup ();
  vx_count (3, 1);
  check_probe (label);
}

/* ------------------------------------------------------------------ element dispatch */
static sb_t work;
static char **sweep_refsig;      /* sweep: outcome of the reference cases (same text, nothing compiled before) */
static void describe (long idx, char *buf, size_t len) {
  unsigned char b[64]; int mode = 0; char pr[1500];
  if (!strcmp (part, "bytes2")) { size_t n = gen_bytes2 (idx, b, &mode); printable (b, n, pr, sizeof pr); snprintf (buf, len, "bytes2 %s \"%s\"", mode ? "pre_text" : "fd", pr); }
  else if (!strcmp (part, "class")) { size_t n = gen_class (idx, b); printable (b, n, pr, sizeof pr); snprintf (buf, len, "class \"%s\"", pr); }
  else if (!strcmp (part, "tok")) { gen_tok (idx, &work); printable (work.b, work.n, pr, sizeof pr); snprintf (buf, len, "tok \"%s\"", pr); }
  else if (!strcmp (part, "edit")) { char d[300]; gen_edit (idx, &work, d, sizeof d); snprintf (buf, len, "edit %s", d); }
  else if (!strcmp (part, "sweep")) { char d[300]; sweep_gen (idx, &work, d, sizeof d); snprintf (buf, len, "sweep %s (%zu bytes)", d, work.n); }
  else if (!strcmp (part, "histpol")) {
    int act[NHOOK], d[4]; long t; char pl[160];
    pol_decode (idx, act, &t); pol_label (act, pl, sizeof pl);
    for (int k = (hist_len < 1 ? 1 : hist_len) - 1; k >= 0; k--) { d[k] = (int) (t % NHISTP); t /= NHISTP; }
    int n = snprintf (buf, len, "histpol [%s]", pl);
    for (int k = 0; k < (hist_len < 1 ? 1 : hist_len); k++) n += snprintf (buf + n, len - (size_t) n, " h%02d", d[k]);
  }
  else if (!strcmp (part, "hist")) { int d[4]; long i = idx; for (int k = hist_len - 1; k >= 0; k--) { d[k] = (int) (i % NHIST); i /= NHIST; } int n = snprintf (buf, len, "hist"); for (int k = 0; k < hist_len; k++) n += snprintf (buf + n, len - (size_t) n, " h%02d", d[k]); }
}

static void element (long idx) {
  unsigned char b[64]; int mode = 0; char label[400];
  if (selftest == 3 && idx == 5) for (;;) ;             /* self-test: an input on which the "compiler" never returns */
  if (!strcmp (part, "hist")) { run_hist (idx); return; }
  if (!strcmp (part, "histpol")) { run_histpol (idx); return; }
  describe (idx, label, sizeof label);
  if (!strcmp (part, "bytes2")) {
    size_t n = gen_bytes2 (idx, b, &mode);
    b[n] = 0;
    if (mode == 1 && memchr (b, 0, n)) { vx_count (4, 1); return; }   /* pre_text is a C string */
    run_input (b, n, mode, label);
  } else if (!strcmp (part, "class")) { size_t n = gen_class (idx, b); run_input (b, n, 0, label); }
  else if (!strcmp (part, "tok")) { gen_tok (idx, &work); run_input (work.b, work.n, 0, label); }
  else if (!strcmp (part, "edit")) { char d[300]; gen_edit (idx, &work, d, sizeof d); run_input (work.b, work.n, 0, label); }
  else if (!strcmp (part, "sweep")) {
    char d[300], pd[120]; static sb_t prev;
    long ref = sweep_ref (idx);
    /* the locals tables only ever grow: these cases start from the tables of a freshly booted driver, whatever this child compiled before */
    if (sweep_fresh (idx)) vw_c02_reset_locals ();
    if (sweep_prev (idx, &prev, pd, sizeof pd)) {
      /* the file compiled before the case: judged like any other input */
      char pl[200]; outcome_t o;
      snprintf (pl, sizeof pl, "sweep: the file compiled before the case (%s)", pd);
      tainted_flag = 0;
      compile_input ("c02/prev.c", prev.b, prev.n, 0, &o, 0);
      if (tainted_flag) tainted ();
      check_after_input (&o, pl);
    }
    sweep_gen (idx, &work, d, sizeof d);
    run_input (work.b, work.n, sweep_mode (idx), label);
    if (ref >= 0 && ref != idx && sweep_refsig && sweep_refsig[ref] && strcmp (last_sig, sweep_refsig[ref])) {
      /* key = the kind of construct the file ends with (one defect per kind, not per spelling) */
      char key[200], en[100] = "?"; const char *e = strstr (d, "ending="), *sp, *cls, *inc = "";
      if (e && (sp = strchr (e, ' '))) snprintf (en, sizeof en, "%.*s", (int) (sp - e - 7) > 90 ? 90 : (int) (sp - e - 7), e + 7);
      e = en;
      if (!strncmp (e, "include-of-header-ending-", 25)) { e += 25; inc = "included-file-ends-with-"; }
      if (strstr (e, "line-comment")) cls = "line-comment";
      else if (strstr (e, "block-comment")) cls = "block-comment";
      else if (!strncmp (e, "define-continued", 16)) cls = "define-continuation";
      else if (!strncmp (e, "define", 6) || !strncmp (e, "undef", 5) || !strncmp (e, "pragma", 6) || !strncmp (e, "include-no", 10) || !strncmp (e, "hash", 4)) cls = "directive";
      else if (!strncmp (e, "if", 2) || !strncmp (e, "else", 4)) cls = "conditional";
      else if (!strncmp (e, "char", 4)) cls = "character-constant";
      else if (!strncmp (e, "string", 6)) cls = "string";
      else if (!strncmp (e, "text-block", 10) || !strncmp (e, "array-block", 11) || !strncmp (e, "at", 2)) cls = "text-block";
      else cls = "code";
      snprintf (key, sizeof key, "C02:history-changes-result:%s%s", inc, cls);
      vx_fail (key, "%s: {%.500s} but with nothing compiled before it {%.500s}", label, last_sig, sweep_refsig[ref]);
    }
  }
}

/* outcome of a sweep case in the state every child starts from, computed in a helper child */
static void sweep_reference (long idx) {
  int pfd[2];
  if (pipe (pfd)) return;
  fflush (0);
  pid_t pid = fork ();
  if (pid == 0) {
    char d[300]; outcome_t o; char sig[1800];
    close (pfd[0]); alarm (30);
    sweep_gen (idx, &work, d, sizeof d);
    compile_input ("c02/in.c", work.b, work.n, sweep_mode (idx), &o, 0);
    outcome_sig (&o, sig, sizeof sig);
    if (write (pfd[1], sig, strlen (sig) + 1) < 0) {}
    syscall (SYS_exit_group, 0);
  }
  close (pfd[1]);
  char buf[1800]; size_t off = 0; ssize_t r;
  while ((r = read (pfd[0], buf + off, sizeof buf - 1 - off)) > 0) off += (size_t) r;
  buf[off] = 0;
  close (pfd[0]);
  int st; waitpid (pid, &st, 0);
  if (!off) snprintf (buf, sizeof buf, "the compile did not return (status %x)", st);
  sweep_refsig[idx] = strdup (buf);
}

static int size_of_program (const unsigned char *t, size_t n) {
  struct cargs a = { "c02/in.c", put_source (t, n), 0, 0 };
  int sz = -1;
  if (!hx_guard (do_compile, &a) && a.prog) { sz = a.prog->program_size; free_prog (a.prog, 1); }
  return sz;
}

/* the parent compiles a few things itself (baseline probe, calibration); a compiler that loops there would hang the whole check */
static const char *parent_phase = "boot";
static void parent_alarm (int sig) {
  /* reported like any other hang: a fail record (and, in --enum mode, a summary) in the output the check reads */
  char key[120], rec[600];
  const char *outp = vx_opt ("out", 0);
  int replay = vx_opt ("replay-index", 0) != 0;
  (void) sig;
  snprintf (key, sizeof key, "hang:parent:%s", parent_phase);
  for (char *q = key; *q; q++) if (*q == ' ') *q = '-';
  fprintf (stderr, "h_c02: the compiler did not return within the time limit in the parent (%s)\n", parent_phase);
  int fd = (outp && !replay) ? open (outp, O_WRONLY | O_CREAT | O_TRUNC, 0644) : 1;
  int n = snprintf (rec, sizeof rec, "{\"type\":\"%s\",\"index\":0,\"desc\":\"%s\",\"choices\":[],\"labels\":[],\"obs\":\"\",\"fails\":[{\"key\":\"%s\",\"msg\":\"the compiler did not return while the harness compiled its own %s in the freshly booted driver\",\"index\":0}],\"stderr\":\"\"}\n",
                    replay ? "replay" : "fail", parent_phase, key, parent_phase);
  if (fd >= 0 && write (fd, rec, (size_t) n) < 0) {}
  if (!replay && fd >= 0) {
    n = snprintf (rec, sizeof rec, "{\"type\":\"summary\",\"mode\":\"enum\",\"total\":0,\"from\":0,\"to\":0,\"evaluations\":0,\"exhaustive\":false,\"hangs\":1,\"counters\":{},\"fail_keys\":{\"%s\":1}}\n", key);
    if (write (fd, rec, (size_t) n) < 0) {}
  }
  syscall (SYS_exit_group, replay ? 1 : 0);
}

/* ------------------------------------------------------------------ boot */
static void make_lib (void) {
  char cmd[3 * PATH_MAX];
  snprintf (libdir, sizeof libdir, "%s/lib", hx_scratch_dir ());
  snprintf (cmd, sizeof cmd, "mkdir -p '%s' && cp -r '%s/mudlib/base/.' '%s/'", libdir, hx_verif_dir (), libdir);
  if (system (cmd)) { fprintf (stderr, "cannot create scratch mudlib\n"); exit (2); }
  c02_lib = libdir;
  if (!strcmp (part, "histpol")) {
    snprintf (cmd, sizeof cmd, "cd '%s' && mv master.c master_base.c && cp c02/master_policy.c master.c && mkdir -p c02bin", libdir);
    if (system (cmd)) { fprintf (stderr, "cannot install the policy master\n"); exit (2); }
  }
}

int main (int argc, char **argv) {
  char conf[200], path[PATH_MAX];
  vx_init_args (argc, argv);
  part = vx_opt ("part", "bytes2");
  selftest = (int) vx_opt_long ("selftest", 0);
  probe_every = (int) vx_opt_long ("probe-every", 1);
  thorough = (int) vx_opt_long ("thorough", 0);
  tok_len = (int) vx_opt_long ("tok-len", 4);
  tok_min = (int) vx_opt_long ("tok-min", 0);
  class_min = (int) vx_opt_long ("class-min", 3);
  edit_subst_progs = (int) vx_opt_long ("edit-subst-progs", 1000);
  class_len = (int) vx_opt_long ("class-len", 3);
  hist_len = (int) vx_opt_long ("hist-len", 2);
  pol_small = (int) vx_opt_long ("pol-small", 0);
  verbose = (int) vx_opt_long ("verbose", 0);
  c02_maxlocals = (int) vx_opt_long ("maxlocals", 25);
  if (probe_every < 1) probe_every = 1;
  signal (SIGALRM, parent_alarm);
  alarm (90);
  make_lib ();
  if (!strcmp (part, "sweep")) sweep_prepare (thorough);
  snprintf (conf, sizeof conf, "MaxLocalVariables %d\nMaxInheritDepth 30\nIncludeDir /c02/inc\n%s", c02_maxlocals, !strcmp (part, "histpol") ? "SaveBinaryDir /c02bin\n" : "");
  hx_boot (libdir, conf, 0);
  vx_count_name (0, "programs"); vx_count_name (1, "rejected"); vx_count_name (2, "probe_compiles"); vx_count_name (3, "nontrivial"); vx_count_name (4, "skipped_nul_in_pre_text");

  snprintf (path, sizeof path, "%s/c02/%s", libdir, c02_maxlocals < 16 ? "probe6.c" : "probe.c");
  probe_text = (unsigned char *) slurp (path, &probe_len);
  if (!probe_text) { fprintf (stderr, "no probe\n"); return 2; }
  /* the programs the probe inherits stay loaded, as they would in a running driver */
  if (!hx_load ("c02/base", 0) || !hx_load ("c02/base2", 0)) { fprintf (stderr, "cannot load c02/base: %s\n", hx_last_error); return 2; }
  if (!strcmp (part, "histpol") && !hx_load ("c02/pol/loaded", 0)) { fprintf (stderr, "cannot load c02/pol/loaded: %s\n", hx_last_error); return 2; }

  /* baseline: the probe compiled in the freshly booted driver; compiled twice to show the baseline itself is a fixed point */
  outcome_t second;
  parent_phase = "baseline probe";
  vw_c02_ident_snapshot ();
  compile_input ("c02/probe.c", probe_text, probe_len, 0, &base_probe, 1);
  if (!base_probe.have_prog || base_probe.nerr || base_probe.problems) {
    fprintf (stderr, "probe does not compile cleanly in the fresh driver: prog=%d nerr=%d problems=%d\n%s%s\n", base_probe.have_prog, base_probe.nerr, base_probe.problems, base_probe.msg,
             base_probe.problems ? base_probe.dump : "");
    return 2;
  }
  capture_state (base_state);
  compile_input ("c02/probe.c", probe_text, probe_len, 0, &second, 1);
  capture_state (now_state);
  {
    char f[120], d[500];
    if (second.hash != base_probe.hash || state_diff (base_state, now_state, 0, f, sizeof f, d, sizeof d)) {
      char dd[400] = ""; pd_diff (base_probe.dump, second.dump, dd, sizeof dd);
      fprintf (stderr, "baseline is not a fixed point (harness problem or non-determinism): %s %s\n", dd, d);
      return 2;
    }
  }
  if (vx_opt ("bench", 0)) {
    struct timespec t0, t1; outcome_t o; int N = 500;
#define T0 clock_gettime (CLOCK_MONOTONIC, &t0)
#define T1(what) clock_gettime (CLOCK_MONOTONIC, &t1); fprintf (stderr, "%-28s %.3f ms\n", what, ((t1.tv_sec - t0.tv_sec) * 1e3 + (t1.tv_nsec - t0.tv_nsec) / 1e6) / N)
    T0; for (int i = 0; i < N; i++) { struct cargs a = { "c02/probe.c", put_source (probe_text, probe_len), 0, 0 }; hx_guard (do_compile, &a); free_prog (a.prog, 1); } T1 ("compile probe");
    T0; for (int i = 0; i < N; i++) { struct cargs a = { "c02/in.c", put_source ((unsigned char *) "int x;", 6), 0, 0 }; hx_guard (do_compile, &a); free_prog (a.prog, 1); } T1 ("compile tiny");
    { struct cargs a = { "c02/probe.c", put_source (probe_text, probe_len), 0, 0 }; hx_guard (do_compile, &a);
      T0; for (int i = 0; i < N; i++) free (pd_dump (a.prog, 0)); T1 ("dump probe"); }
    T0; for (int i = 0; i < N; i++) capture_state (now_state); T1 ("capture_state");
    T0; for (int i = 0; i < N; i++) compile_input ("c02/probe.c", probe_text, probe_len, 0, &o, 0); T1 ("compile_input probe");
    return 0;
  }
  if (vx_opt ("print-probe", 0)) { puts (base_probe.dump); puts (base_state); return 0; }

  long total = 0;
  if (!strcmp (part, "bytes2")) total = 2 * B2;
  else if (!strcmp (part, "class")) total = class_total ();
  else if (!strcmp (part, "tok")) total = 2 * tok_strings ();
  else if (!strcmp (part, "edit")) {
    load_corpus (); total = edit_total ();
    /* the corpus itself must be valid LPC, otherwise the edits do not start from "a valid program";
       checked in a helper child so that the parent every execution forks from has compiled nothing but the probe */
    fflush (0);
    pid_t cpid = fork ();
    if (cpid == 0) {
      int bad = 0;
      alarm (240);
      for (int i = 0; i < ncorpus; i++) {
        char d[300]; outcome_t o;
        gen_edit (edit_prefix[i], &work, d, sizeof d);
        compile_input ("c02/in.c", work.b, work.n, 0, &o, 0);
        if (!o.have_prog || o.nerr) { fprintf (stderr, "corpus program %s does not compile: %s\n", corpus[i].name, o.msg); bad = 1; }
      }
      syscall (SYS_exit_group, bad);
    }
    int cst = 0; waitpid (cpid, &cst, 0);
    /* exit 1 = a corpus program is not valid LPC (a broken corpus); a crash or a hang of the helper is left to the
       enumeration, which compiles every unedited program as an element and reports it with its input */
    if (WIFEXITED (cst) && WEXITSTATUS (cst) == 1) { fprintf (stderr, "corpus check failed (status %x)\n", cst); if (!vx_opt ("allow-bad-corpus", 0)) return 2; }
    else if (!WIFEXITED (cst) || WEXITSTATUS (cst)) fprintf (stderr, "corpus check helper ended abnormally (status %x)\n", cst);
  }
  else if (!strcmp (part, "sweep")) {
    if (c02_maxlocals == 25) {
      /* calibration compiles 15 programs: in a helper child (fresh state for the children of vx), results through a pipe */
      int pfd[2]; int vals[32];
      parent_phase = "sweep calibration";
      if (pipe (pfd)) return 2;
      fflush (0);
      pid_t cp = fork ();
      if (cp == 0) { close (pfd[0]); alarm (120); sweep_calibrate (size_of_program); int n = sweep_calibration_export (vals, 32); if (write (pfd[1], vals, sizeof (int) * (size_t) n) < 0) {} syscall (SYS_exit_group, 0); }
      close (pfd[1]);
      ssize_t r = read (pfd[0], vals, sizeof vals);
      close (pfd[0]);
      int cst = 0; waitpid (cp, &cst, 0);
      if (r > 0) sweep_calibration_import (vals, (int) (r / (ssize_t) sizeof (int)));
      else fprintf (stderr, "h_c02: sweep calibration failed (status %x): the code-size family is generated uncalibrated\n", cst);
    }
    total = sweep_total ();
    /* the locals tables only ever grow: children start from the size they have after boot (the probe has just grown them) */
    vw_c02_reset_locals ();
    capture_state (base_state);
    parent_phase = "reference outcomes";
    sweep_refsig = calloc ((size_t) total + 1, sizeof (char *));
    { long lo = vx_opt_long ("replay-index", -1);
      for (long i = 0; i < total; i++) if (sweep_ref (i) == i && (lo < 0 || sweep_ref (lo) == i)) sweep_reference (i); }
  }
  else if (!strcmp (part, "hist")) {
    total = hist_total ();
    /* fresh-driver outcome of each candidate: each in its own child of this freshly booted process */
    for (int k = 0; k < NHIST; k++) {
      int pfd[2];
      if (pipe (pfd)) return 2;
      fflush (0);
      pid_t pid = fork ();
      if (pid == 0) { char o[1800]; close (pfd[0]); alarm (60); hist_outcome (k, o, sizeof o); if (write (pfd[1], o, strlen (o) + 1) < 0) {} syscall (SYS_exit_group, 0); }
      close (pfd[1]);
      size_t off = 0; ssize_t r;
      while ((r = read (pfd[0], hist_alone[k] + off, sizeof hist_alone[k] - 1 - off)) > 0) off += (size_t) r;
      close (pfd[0]);
      int st; waitpid (pid, &st, 0);
      if (!off) snprintf (hist_alone[k], sizeof hist_alone[k], "died status=%x", st);
      if (verbose) fprintf (stderr, "h%02d alone: %s\n", k, hist_alone[k]);
    }
  }
  else if (!strcmp (part, "histpol")) {
    total = histpol_total ();
    parent_phase = "fresh-driver outcomes under each policy";
    for (int p = 0; p < NPOL1 && hist_len > 1; p++) for (int k = 0; k < NHISTP; k++) {
      int pfd[2], act[NHOOK] = { 0, 0, 0, 0 };
      if (p) act[(p - 1) / 3] = (p - 1) % 3 + 1;
      if (pipe (pfd)) return 2;
      fflush (0);
      pid_t pid = fork ();
      if (pid == 0) { char o[1800]; close (pfd[0]); alarm (60); pol_set (act); hist_outcome (k, o, sizeof o); if (write (pfd[1], o, strlen (o) + 1) < 0) {} syscall (SYS_exit_group, 0); }
      close (pfd[1]);
      size_t off = 0; ssize_t r;
      while ((r = read (pfd[0], pol_alone[p][k] + off, sizeof pol_alone[p][k] - 1 - off)) > 0) off += (size_t) r;
      close (pfd[0]);
      int st; waitpid (pid, &st, 0);
      if (!off) snprintf (pol_alone[p][k], sizeof pol_alone[p][k], "died status=%x", st);
    }
  }
  else { fprintf (stderr, "unknown part %s\n", part); return 2; }
  {
    /* let the sanitizer runtime load its symbol tables once, here, so that forked children that report an error do not each pay for it */
    extern int __sanitizer_symbolize_pc (void *, const char *, char *, size_t) __attribute__ ((weak));
    char sym[256];
    if (__sanitizer_symbolize_pc) __sanitizer_symbolize_pc ((void *) compile_file, "%f %s:%l", sym, sizeof sym);
  }
  alarm (0);
  vx_set_enum (total, element, describe);
  return vx_run (argc, argv, 0);
}
