// C20 neutral reader: LPC-level getuid()/geteuid() of any object
mixed uid_of(object o)  { return getuid(o); }
mixed euid_of(object o) { return geteuid(o); }
