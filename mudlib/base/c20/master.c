// C20 master: the base verification master + the actor functions, so that the master itself can be an actor
inherit "/master";

// valid_seteuid policies that do not answer: "raise" = error for every request,
// "raise-root" = own-uid-only, but an error when the requested euid is "Root"
int valid_seteuid(object ob, string newuid) {
  mixed p = query_policy("valid_seteuid");
  if (p == "raise" || p == "raise-root") {
    if (query_policy("log_uid")) mlog += ({ ({ "valid_seteuid", file_name(ob), newuid }) });
    if (p == "raise" || newuid == "Root") error("valid_seteuid failing on purpose\n");
    return newuid == getuid(ob);
  }
  return ::valid_seteuid(ob, newuid);
}
// C20 actor: every op of the uid alphabet as a function; results are returned, errors propagate to the harness
mixed do_load(string f)   { return load_object(f); }
mixed do_clone(string f)  { return clone_object(f); }
mixed do_call(string f)   { return f->ping(); }           // call_other on a file name loads it
int ping() { return 1; }
mixed do_seteuid(mixed n) { return seteuid(n); }
mixed do_export(object o) { return export_uid(o); }
mixed uid_of(object o)    { return getuid(o); }
mixed euid_of(object o)   { return geteuid(o); }
mixed my_uid()            { return getuid(this_object()); }
mixed my_euid()           { return geteuid(this_object()); }
