// C20 master lacking one apply ("function not defined" is an answer of its own): generated from master_nv.c
// C20 master WITHOUT valid_seteuid(): a stand-alone copy of what the harness needs from the base verification master
// (policies, apply log, error log, creator_file, the uid applies) + the actor functions
mapping pol = ([]);
mixed *errors = ({});
string last_error = "";
mixed *mlog = ({});
void set_policy(string k, mixed v) { pol[k] = v; }
mixed query_policy(string k) { return pol[k]; }
string query_last_error() { string e = last_error; last_error = ""; return e; }
mixed *query_errors() { return errors; }
mixed *query_mlog() { return mlog; }
void clear_mlog() { mlog = ({}); }
mixed error_handler(mapping m, int caught) {
  if (!caught) last_error = m["error"];
  errors += ({ ({ m["error"], m["file"], m["line"], caught }) });
  return 0;
}
object connect(int port) { return 0; }
string creator_file(string file) {
  string d;
  if (pol["log_uid"]) mlog += ({ ({ "creator_file", file }) });
  if (!undefinedp(pol["creator_file_ret"])) return pol["creator_file_ret"];
  if (sscanf(file, "/%s/%*s", d) == 2 || sscanf(file, "%s/%*s", d) == 2) {
    if (d == "w1" || d == "w2") return d;
    if (d == "bb") return "BB";
  }
  return "Root";
}
int valid_seteuid(object ob, string newuid) {
  if (pol["log_uid"]) mlog += ({ ({ "valid_seteuid", file_name(ob), newuid }) });
  if (undefinedp(pol["valid_seteuid"])) return 1;
  if (pol["valid_seteuid"] == "own") return newuid == getuid(ob);
  return pol["valid_seteuid"];
}
string get_root_uid() { return "Root"; }
mixed valid_read(string path, mixed caller, string fn) { return 1; }
mixed valid_write(string path, mixed caller, string fn) { return 1; }
int valid_object(object ob) { return 1; }
int valid_bind(object a, object b, object c) { return 1; }
int valid_hide(object ob) { return 1; }
int valid_override(string file, string name) { return 1; }
int valid_save_binary(string file) { return 0; }
string make_path_absolute(string f) { return f; }
mixed do_load(string f)   { return load_object(f); }
mixed do_clone(string f)  { return clone_object(f); }
mixed do_call(string f)   { return f->ping(); }           // call_other on a file name loads it
int ping() { return 1; }
mixed do_seteuid(mixed n) { return seteuid(n); }
mixed do_export(object o) { return export_uid(o); }
mixed uid_of(object o)    { return getuid(o); }
mixed euid_of(object o)   { return geteuid(o); }
mixed my_uid()            { return getuid(this_object()); }
mixed my_euid()           { return geteuid(this_object()); }
