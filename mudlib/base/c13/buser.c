// C13 behaviour axis: on its k-th input line this user object raises an uncaught error (act 1), destructs itself (2)
// or exec()s the connection to a fresh object (3).  Lines arrive through process_input (via 0), an input_to callback
// that re-arms itself (via 1) or a catch-all command (via 2).
int n, act, k, via;
void setup(int n0, int a, int kk, int v) {
  n = n0; act = a; k = kk; via = v;
  if (via == 2) { enable_commands(); add_action("docmd", "", 1); }
}
void logon() {
  object m = master();
  setup(0, m->query_policy("c13_act"), m->query_policy("c13_k"), m->query_policy("c13_via"));
  if (via == 1) input_to("cb");
}
void doact(mixed s) {
  "/c13/logd"->add(s);
  if (n++ == k) {
    if (act == 1) error("boom\n");
    if (act == 2) destruct(this_object());
    if (act == 3) { object o = new("/c13/buser"); o->setup(n, 0, -1, via); exec(o, this_object()); destruct(this_object()); }
  }
}
mixed process_input(mixed s) { if (via == 2) return 0; doact(s); return 1; }
void cb(string s) { input_to("cb"); doact(s); }
int docmd(string arg) { string v = query_verb(); doact(arg ? v + " " + arg : v); return 1; }
void net_dead() { destruct(this_object()); }
void write_prompt() { }
