// C13 behaviour axis: the log lives here because the user object may destruct itself or exec() the connection away
mixed *ulog = ({});
mixed *nlog = ({});
void add(mixed s) { ulog += ({ s }); }
void reset_log() { ulog = ({}); nlog = ({}); }
