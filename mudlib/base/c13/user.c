// C13 user object: command lines / buffers in ulog (variable 0), negotiation callbacks in nlog (variable 1)
mixed *ulog = ({});
mixed *nlog = ({});
void gc(string c) { ulog += ({ c }); get_char("gc"); }
void logon() { if (master()->query_policy("c13_single")) get_char("gc"); }
mixed process_input(mixed s) { ulog += ({ s }); return 1; }
void net_dead() { destruct(this_object()); }
void set_terminal_type(string t) { nlog += ({ "T" + t }); }
void set_window_size(int w, int h) { nlog += ({ "W" + w + "x" + h }); }
void telnet_suboption(string s) { nlog += ({ "S" + s }); }
void write_prompt() { }
