// C08: second blueprint; inherits /c08/a, so loading it while /c08/a is not loaded loads /c08/a on the way
inherit "/c08/a";
