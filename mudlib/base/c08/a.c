// C08 population object.  Every hook first calls hookpoint(kind): the harness sees the call at the first instruction
// (H1) - that is where "this object was called" is observed and where the hook's script is decided (poked into `sc`).
// The script itself is carried out by /c08/log on behalf of this object.
int sc;                 // MUST stay the first variable
int id = -1;
#define L "/c08/log"
#define GONE (!objectp(this_object()))

// kinds: 1 create, 2 init, 3 move_or_destruct, 4 verb function, 5 heart_beat, 6 call_out callback, 7 id(), 8 poke(), 9 catch_tell()
int hookpoint(int kind) { return sc; }

// what a careless object does after it has been destructed in the middle of one of its own functions:
// every one of these must leave no trace (nothing can be logged from here: call_other from a destructed object is a no-op)
void battery() {
  object y;
  catch(enable_commands());
  catch(set_living_name("zz"));
  catch(set_heart_beat(1));
  catch(call_out("co", 1));
  catch(add_action("verb", "v"));
  y = find_object("/c08/log");
  if (y) catch(move_object(y));
}

void create() {
  seteuid(getuid(this_object()));
  id = L->reg(this_object());
  L->add(({ "create", id }));
  L->script(id, 1, hookpoint(1));
  if (GONE) battery();
}
void init() {
  int s = hookpoint(2);
  L->add(({ "init", id, L->idof(this_player()) }));
  add_action("verb", "v");
  L->script(id, 2, s);
  if (GONE) battery();
}
int move_or_destruct(object dest) {
  int s = hookpoint(3);
  L->add(({ "mod", id, L->idof(dest) }));
  L->script(id, 3, s);
  if (GONE) battery();
  return 0;
}
int verb(string arg) {
  int s = hookpoint(4);
  L->add(({ "verb", id, L->idof(this_player()) }));
  L->script(id, 4, s);
  if (GONE) battery();
  return (s >> 24) & 1;
}
void heart_beat() { int s = hookpoint(5); L->add(({ "hb", id })); L->script(id, 5, s); if (GONE) battery(); }
void co() { int s = hookpoint(6); L->add(({ "co", id })); L->script(id, 6, s); if (GONE) battery(); }

int ping() { return 1; }
int poke(int x) { hookpoint(8); return 1; }
void catch_tell(string msg) { hookpoint(9); }
int id(string str) { int s = hookpoint(7); L->add(({ "id", id })); L->script(id, 7, s); if (GONE) battery(); return 0; }
void raw_move(mixed dest) { move_object(dest); if (GONE) battery(); }
void raw_living(string n) { enable_commands(); set_living_name(n); }
void raw_hb() { set_heart_beat(1); }
void raw_timers() { set_heart_beat(1); call_out("co", 1); }
int raw_command() { int r = command("v"); if (GONE) battery(); return r; }
