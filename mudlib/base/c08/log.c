// C08 logger / registry / observer.  Never destructed.  Holds references to the population in an array,
// in a mapping and in plain variables, so that "every reference to a destructed object reads as 0" can be read back.
mixed *log = ({});
object *obs = ({ 0, 0, 0, 0 });
mapping refmap = ([]);
object ref0, ref1, ref2, ref3;
int nclone = 0;
string *names = ({ "p", "q" });     // living names (the harness picks two that collide in the living hash)
void set_names(string a, string b) { names = ({ a, b }); }
string lname(int id) { return names[id & 1]; }

void create() { seteuid(getuid(this_object())); }
void add(mixed *e) { log += ({ e }); }
mixed *take_log() { mixed *l = log; log = ({}); return l; }

// id by name: /c08/a -> 0, /c08/b -> 1, clones of /c08/a -> 2, 3 in creation order (the harness applies the same rule)
int reg(object o) {
  string n = file_name(o);
  int id;
  if (n[0] == '/') n = n[1..];
  if (n == "c08/a") id = 0; else if (n == "c08/b") id = 1; else { id = 2 + nclone; nclone++; if (id > 3) return -1; }
  obs[id] = o; refmap["k" + id] = o;
  switch (id) { case 0: ref0 = o; break; case 1: ref1 = o; break; case 2: ref2 = o; break; case 3: ref3 = o; break; }
  return id;
}
object ob(int i) { return (i >= 0 && i < 4) ? obs[i] : 0; }
int idof(mixed o) { int k; if (!objectp(o)) return -1; k = member_array(o, obs); return k < 0 ? -2 : k; }
private int *ids(mixed *a) { int i; int *r = allocate(sizeof(a)); for (i = 0; i < sizeof(a); i++) r[i] = objectp(a[i]) ? member_array(a[i], obs) : -3; return r; }

// observations through efuns (ids; -1 = 0/none, -2 = an object outside the population, -3 = a non-object element)
int fo(string name) { return idof(find_object(name)); }
int env(int i) { return obs[i] ? idof(environment(obs[i])) : -9; }
int *inv(int i) { return obs[i] ? ids(all_inventory(obs[i])) : 0; }
int *deep(int i) { return obs[i] ? ids(deep_inventory(obs[i])) : 0; }
int *chain(int i) {                       // first_inventory / next_inventory walk
  object o; int *r = ({});
  if (!obs[i]) return 0;
  for (o = first_inventory(obs[i]); o; o = next_inventory(o)) { r += ({ idof(o) }); if (sizeof(r) > 8) break; }
  return r;
}
int *allobs() { return ids(objects()) - ({ -1 }); }
int *liv() { return ids(livings()) - ({ -1 }); }
int fl(string name) { return idof(find_living(name)); }
int pres(int i, int j) { return (obs[i] && obs[j]) ? objectp(present(obs[i], obs[j])) : -9; }
// the three kinds of reference to object i: array slot, mapping value, variable: 1 = object, 0 = reads as 0
int *refs(int i) {
  mixed v;
  switch (i) { case 0: v = ref0; break; case 1: v = ref1; break; case 2: v = ref2; break; default: v = ref3; }
  return ({ objectp(obs[i]), objectp(refmap["k" + i]), objectp(v) });
}

// Every op is carried out by this object (which is never destructed), so that the begin/end records are written even
// when the object the op is about destructs itself half-way (call_other from a destructed object silently does nothing).
// script: op | a << 8 | b << 16
//  1 fail   2 move(a -> b)   3 destruct(a)   4 load a (0|1)   5 clone /c08/a   6 `who` becomes living   9 a calls set_heart_beat(1)
void shape(int who, int a, int k);
void perform(int who, int s) {
  int op = s & 0xff, a = (s >> 8) & 0xff, b = (s >> 16) & 0xff;
  object x, y;
  string f;
  switch (op) {
    case 1: add(({ "fail", who })); error("C08 scripted failure\n"); break;
    case 2:
      x = ob(a); y = ob(b);
      if (!x || !y) { add(({ "nop", who, op, a, b })); break; }
      add(({ "move-begin", who, a, b })); x->raw_move(y); add(({ "move-end", who, a, b }));
      break;
    case 3:
      x = ob(a);
      if (!x) { add(({ "nop", who, op, a, b })); break; }
      add(({ "dest-begin", who, a })); destruct(x); add(({ "dest-end", who, a }));
      break;
    case 4: f = a ? "/c08/b" : "/c08/a"; add(({ "load-begin", who, f })); load_object(f); add(({ "load-end", who, f })); break;
    case 5: add(({ "clone-begin", who, "/c08/a" })); clone_object("/c08/a"); add(({ "clone-end", who, "/c08/a" })); break;
    case 6: x = ob(who); if (x) { x->raw_living(lname(who)); add(({ "living", who, lname(who) })); } break;
    case 7: x = ob(who); if (x) { x->raw_timers(); add(({ "timers", who })); } break;
    case 10:   // move_object("<name>") by object a; the name (b: 0 = /c08/a, 1 = /c08/b) is resolved - and loaded - inside the efun
      x = ob(a);
      if (!x) { add(({ "nop", who, op, a, b })); break; }
      add(({ "move-s-begin", who, a, b })); x->raw_move(b ? "/c08/b" : "/c08/a"); add(({ "move-s-end", who, a, b }));
      break;
    case 11:   // load object a (0|1) through another efun that resolves a name: b = 1 call_other, 2 first_inventory, 3 tell_room
      f = a ? "/c08/b" : "/c08/a";
      add(({ "load-begin", who, f }));
      switch (b) { case 1: f->ping(); break; case 2: first_inventory(f); break; default: tell_room(f, "hello\n"); }
      add(({ "load-end", who, f }));
      break;
    case 12:   // present("thing", a): id() is applied in every item of a's inventory
      x = ob(a);
      if (x) { add(({ "present-begin", who, a })); present("thing", x); add(({ "present-end", who, a })); }
      break;
    case 14:   // call_out with object a as an extra argument (b: 0 efun-pointer callback (: call_other :) with a first,
               // 1 named callback with a first, 2 named callback with a second); a may be destructed before it is due
      x = ob(a);
      if (!x) { add(({ "nop", who, op, a, b })); break; }
      switch (b) {
        case 0: call_out((: call_other :), 1, x, "poke", 1); break;
        case 1: call_out("co_take", 1, x, 0); break;
        default: call_out("co_take", 1, 0, x);
      }
      add(({ "co-arg", who, a, b }));
      break;
    case 13:   // an argument that is evaluated later destructs an object that is already pending on the stack (b = shape)
      shape(who, a, b);
      break;
    case 9: x = ob(a); if (x) { x->raw_hb(); add(({ "hb-on", who, a })); } else add(({ "nop", who, op, a, b })); break;
    case 8: x = ob(who); if (x) { add(({ "cmd-begin", who })); a = x->raw_command(); add(({ "cmd-end", who, a })); } break;
  }
}
void co_take(mixed o1, mixed o2) { add(({ "co-take", -1, idof(o1), idof(o2) })); }
// kill(a): destruct object a in the middle of an argument list; the value is whatever the shape needs next
mixed kill(int who, int a, mixed ret) { perform(who, 3 | a << 8); return ret; }
void take(mixed o, mixed dummy) { add(({ "shape-arg", -1, objectp(o) })); }
void shape(int who, int a, int k) {
  object o = ob(a), e;          // `o` (a local) is the older reference lower on the stack
  if (!o) { add(({ "nop", who, 13, a, k })); return; }
  add(({ "shape-begin", who, a, k }));
  switch (k) {
    case 0: o->poke(kill(who, a, 1)); break;                        // the call_other target
    case 1: tell_object(o, kill(who, a, "boo\n")); break;            // first argument of a two-argument efun
    case 2: e = environment(o); if (e) present(o, kill(who, a, e)); else o->poke(kill(who, a, 1)); break;
    default: take(o, kill(who, a, 1)); break;                        // argument of a local call
  }
  add(({ "shape-end", who, a, k, objectp(o) }));
}
// called from the hooks of the population objects
void script(int who, int kind, int s) { if (s & 0xff) add(({ "hook-script", who, kind })); perform(who, s & 0xffffff); add(({ "hook-end", who, kind })); }
// top-level ops (called by the harness)
mixed top(int who, int s) { perform(who, s); return 1; }
