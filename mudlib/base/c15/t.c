// C15 dispatcher: one function per file efun form; p = enumerated path, q = the fixed partner path
int x = 5;
string s = "str";
static int st = 7;

mixed op_read_file(string p, string q) { return read_file(p); }
mixed op_read_file_lines(string p, string q) { return read_file(p, 2, 1); }
mixed op_write_file(string p, string q) { return write_file(p, "w\n"); }
mixed op_write_file_ow(string p, string q) { return write_file(p, "w\n", 1); }
mixed op_read_bytes(string p, string q) { return read_bytes(p, 0, 2); }
mixed op_write_bytes(string p, string q) { return write_bytes(p, 0, "zz"); }
mixed op_read_buffer(string p, string q) { return read_buffer(p, 0, 2); }
mixed op_write_buffer(string p, string q) { return write_buffer(p, 0, "yy"); }
mixed op_rm(string p, string q) { return rm(p); }
mixed op_mkdir(string p, string q) { return mkdir(p); }
mixed op_rmdir(string p, string q) { return rmdir(p); }
mixed op_get_dir(string p, string q) { return get_dir(p); }
mixed op_get_dir_long(string p, string q) { return get_dir(p, -1); }
mixed op_stat(string p, string q) { return stat(p); }
mixed op_stat_long(string p, string q) { return stat(p, -1); }
mixed op_file_size(string p, string q) { return file_size(p); }
mixed op_file_length(string p, string q) { return file_length(p); }
mixed op_tail(string p, string q) { return tail(p); }
mixed op_save_object(string p, string q) { return save_object(p); }
mixed op_save_object_z(string p, string q) { return save_object(p, 1); }
mixed op_restore_object(string p, string q) { return restore_object(p); }
mixed op_restore_object_nc(string p, string q) { return restore_object(p, 1); }
mixed op_dumpallobj(string p, string q) { dumpallobj(p); return 1; }
mixed op_dump_prog(string p, string q) { dump_prog(this_object(), 0, p); return 1; }
mixed op_dump_prog_dis(string p, string q) { dump_prog(this_object(), 3, p); return 1; }
mixed op_rename_from(string p, string q) { return rename(p, q); }
mixed op_rename_to(string p, string q) { return rename(q, p); }
mixed op_cp_from(string p, string q) { return cp(p, q); }
mixed op_cp_to(string p, string q) { return cp(q, p); }
mixed op_link_from(string p, string q) { return link(p, q); }
mixed op_link_to(string p, string q) { return link(q, p); }
// class B: name resolution of programs
mixed op_load_object(string p, string q) { return objectp(load_object(p)); }
mixed op_find_object_load(string p, string q) { return objectp(find_object(p, 1)); }
mixed op_clone_object(string p, string q) { return objectp(clone_object(p)); }
mixed op_new(string p, string q) { return objectp(new(p)); }
mixed op_call_other(string p, string q) { return call_other(p, "q"); }
// editor: started by the interactive user (see user object), commands are fed by the harness
mixed op_ed(string p, string q) { ed(p); return 1; }
mixed op_ed_nofile(string p, string q) { ed(); return 1; }
mixed op_remove_interactive(string p, string q) { return remove_interactive(this_player()); }
int q() { return 1; }
void create() { seteuid(getuid()); }
