// minimal user object
mixed *ulog = ({});
void logon() { ulog += ({ "logon" }); }
string process_input(string s) { ulog += ({ s }); return s; }
mixed *query_ulog() { return ulog; }
void net_dead() { ulog += ({ "net_dead" }); }
