// heart-beat objects: three clones (cloning switches the blueprint's own heart beat off); the plan decides which one fails
#include "/c09/c09.h"
int id;
void set_id(int i) { id = i; set_heart_beat(1); }
void off() { set_heart_beat(0); L("hboff " + ME); }
void on() { set_heart_beat(1); L("hbon " + id); }
void heart_beat() {
  L("hb " + id);
  TP("heart_beat", id);
  if (!id) PLAN->touch_rs();
  if (id == 1 && PLAN->query_st() == 2) set_heart_beat(0);   // self-test only: a broken mudlib the model does not know about
}
