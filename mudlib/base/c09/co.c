// three call_out chains; each re-arms itself after it has run (so a failing firing ends its chain)
#include "/c09/c09.h"
void arm(int k, int d) { call_out("fire" + k, d, k); }
void start() { arm(0, 1); arm(1, 1); arm(2, 2); }
void fired(int k) { L("co " + k); TP("call_out", k); arm(k, PLAN->query_period()); }
void fire0(int k) { fired(0); }
void fire1(int k) { fired(1); }
void fire2(int k) { fired(2); }
void rm() { remove_call_out("fire1"); L("rm fire1"); }
