// C09 mudlib: every task announces itself on the debug log ("@@" lines are read by the harness from the
// child's stderr) and asks the plan object whether this execution is the one that raises an uncaught error.
#define PLAN "/c09/plan"
#define L(x) debug_message("@@" + (x))
#define ME file_name(this_object())
#define T(k) L("t " + (k) + " " + ME); if (PLAN->hit(k, -1)) { L("inject " + (k) + " " + ME); error("injected:" + (k) + "\n"); }
#define TP(k, p) L("t " + (k) + " " + ME); if (PLAN->hit(k, p)) { L("inject " + (k) + " " + ME); error("injected:" + (k) + "\n"); }
