// scriptable user object of the C09 harness
#include "/c09/c09.h"

void setup() {
  enable_commands();
  add_action("do_ping", "ping");
  add_action("do_act", "act");
  set_heart_beat(1);
}
void create() { seteuid(getuid()); T("connect"); }
void logon() { T("logon"); setup(); L("logon " + ME); }
mixed process_input(string s) { T("process_input"); L("pi " + ME + " " + s); return 0; }
int do_ping(string a) { write("pong\n"); return 1; }
void write_prompt() { T("write_prompt"); write("> "); }
string tp() { object o = this_player(); return o ? file_name(o) : "0"; }
void net_dead() { L("tp " + tp()); T("net_dead"); L("gone " + ME); destruct(this_object()); }
void heart_beat() { L("uhb " + ME); }
void set_terminal_type(string t) { L("tp " + tp()); T("telnet"); L("ttype " + ME); }
void telnet_suboption(string s) { T("telnet"); L("sb " + ME); }
void cb_ok(string s) { T("input_to"); L("cb " + ME + " " + s); }
void cb_ok2(string s) { L("cb2 " + ME + " " + s); }

object other_user() {
  object *u = users() - ({ this_object() });
  return sizeof(u) ? u[0] : 0;
}

int do_act(string a) {
  string h = PLAN->query_hostile();
  object o;
  T("verb");
  L("act " + ME + " " + h);
  switch (h) {
  case "": write("acted\n"); break;
  case "input_to_ok": input_to("cb_ok"); break;
  case "input_to_bad": input_to("no_such_function"); break;
  case "get_char_ok": get_char("cb_ok"); break;
  case "get_char_bad": get_char("no_such_function"); break;
  case "input_to_twice": input_to("cb_ok"); input_to("cb_ok2"); break;
  case "exec": o = new("/c09/npc"); o->setup(); exec(o, this_object()); L("exec " + file_name(o)); break;
  case "snoop": o = other_user(); if (o) snoop(this_object(), o); break;
  case "destruct_self": L("gone " + ME); destruct(this_object()); break;
  case "destruct_other": o = other_user(); if (o) { L("gone " + file_name(o)); destruct(o); } break;
  case "remove_call_out": "/c09/co"->rm(); break;
  case "hb_off": set_heart_beat(0); L("hboff " + ME); PLAN->hb_off(); break;
  case "ed": ed("/c09/scratch.txt"); break;
  case "hb_reenable": PLAN->hb_reenable(); break;
  case "hb_destruct": PLAN->hb_destruct(); break;
  }
  if (h == "hb_reenable" || h == "hb_destruct") { T("verb_end"); }   // second fault in the same task, after the action
  return PLAN->query_hret();
}
