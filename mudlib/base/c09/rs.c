// objects with reset(): three clones; /c09/hb (id 0) touches them every beat so that they leave the "reset state" again
#include "/c09/c09.h"
int id = -1;
void set_id(int i) { id = i; }
void touch() { }
void reset() { if (id < 0) return; L("reset " + id); TP("reset", id); }
