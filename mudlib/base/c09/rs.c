// object with reset(): /c09/hb (id 0) touches it every beat so that it leaves the "reset state" again
#include "/c09/c09.h"
void touch() { }
void reset() { T("reset"); L("reset"); }
