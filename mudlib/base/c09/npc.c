// target of exec(): takes over a connection
inherit "/c09/user";
void create() { seteuid(getuid()); }
