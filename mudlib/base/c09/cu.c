// object with clean_up(): nobody touches it, so it becomes eligible again CleanupDuration after each call
#include "/c09/c09.h"
void touch() { }
int clean_up(int inh) { T("clean_up"); L("clean_up"); return 1; }
