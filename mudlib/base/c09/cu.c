// objects with clean_up(): three clones; nobody touches them, so they become eligible again CleanupDuration after each call
#include "/c09/c09.h"
int id = -1;
void set_id(int i) { id = i; }
int clean_up(int inh) { if (id < 0) return 0; L("clean_up " + id); TP("clean_up", id); return 1; }
