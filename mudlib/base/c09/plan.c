// fault plan + hostile script (data set by the harness before backend() starts)
string kind = "";      // task kind that fails ("" = none)
int pos = -1;          // for heart_beat / call_out: which of the three objects / chains
int nth = 1;           // at its nth execution
int every = 0;         // once or every time from then on
int count = 0;         // executions seen (capped at nth+1 so that the state stays canonical)
string hostile = "";   // operation performed by the verb "act"
int period = 2;        // re-arm delay of the call_out chains
int hret = 1;          // what the verb returns after the hostile operation
int st = 0;            // self-test of the check: 2 = heart-beat object 1 silently stops beating

void create() { seteuid(getuid()); }
void set_plan(string k, int p, int n, int e) { kind = k; pos = p; nth = n; every = e; count = 0; }
void set_hostile(string h, int r) { hostile = h; hret = r; }
void set_period(int p) { period = p; }
void set_st(int s) { st = s; }
int query_st() { return st; }
string query_hostile() { return hostile; }
int query_hret() { return hret; }
int query_period() { return period; }
int query_count() { return count; }

int hit(string k, int p) {
  if (k != kind) return 0;
  if (pos >= 0 && p != pos) return 0;
  if (count <= nth) count++;
  if (every) return count >= nth;
  return count == nth;
}

// objects that exist before the backend loop starts (as preloaded objects would)
object *hbs = ({});
void boot() {
  int i;
  for (i = 0; i < 3; i++) { object o = new("/c09/hb"); o->set_id(i); hbs += ({ o }); }
  "/c09/co"->start();
  "/c09/rs"->touch();
  "/c09/cu"->touch();
}
void hb_off() { if (hbs[0]) hbs[0]->off(); }
