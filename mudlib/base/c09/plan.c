// fault plan + hostile script (data set by the harness before backend() starts)
string kind = "";      // task kind that fails ("" = none)
int pos = -1;          // for heart_beat / call_out: which of the three objects / chains
int nth = 1;           // at its nth execution
int every = 0;         // once or every time from then on
int count = 0;         // executions seen (capped at nth+1 so that the state stays canonical)
string hostile = "";   // operation performed by the verb "act"
int period = 2;        // re-arm delay of the call_out chains
int hret = 1;          // what the verb returns after the hostile operation
string kind2 = "";     // second fault (two faults within one tick interval): task kind
int nth2 = 0, count2 = 0;
int st = 0;            // self-test of the check: 2 = heart-beat object 1 silently stops beating

void create() { seteuid(getuid()); }
void set_plan(string k, int p, int n, int e) { kind = k; pos = p; nth = n; every = e; count = 0; }
void set_plan2(string k, int n) { kind2 = k; nth2 = n; count2 = 0; }
void set_hostile(string h, int r) { hostile = h; hret = r; }
void set_period(int p) { period = p; }
void set_st(int s) { st = s; }
int query_st() { return st; }
string query_hostile() { return hostile; }
int query_hret() { return hret; }
int query_period() { return period; }
int query_count() { return count; }

int hit(string k, int p) {
  if (k == kind2 && nth2) {            // the second fault fails once, at its nth2-th execution
    if (count2 <= nth2) count2++;
    if (count2 == nth2) return 1;
  }
  if (k != kind) return 0;
  if (pos >= 0 && p != pos) return 0;
  if (count <= nth) count++;
  if (every) return count >= nth;
  return count == nth;
}

// objects that exist before the backend loop starts (as preloaded objects would)
object *hbs = ({});
object *rss = ({});
void boot() {
  int i;
  for (i = 0; i < 3; i++) { object o = new("/c09/hb"); o->set_id(i); hbs += ({ o }); }
  "/c09/co"->start();
  for (i = 0; i < 3; i++) { object o = new("/c09/rs"); o->set_id(i); rss += ({ o }); }
  for (i = 0; i < 3; i++) { object o = new("/c09/cu"); o->set_id(i); }
}
void hb_off() { if (hbs[0]) hbs[0]->off(); }
// every beat of heart-beat object 0 touches the three reset objects, so that they leave the "reset state" again
void touch_rs() { int i; for (i = 0; i < sizeof(rss); i++) if (rss[i]) rss[i]->touch(); }
// between the two faults: switch the heart beat of the objects that lost it back on / destruct the failing object
void hb_reenable() { int i; for (i = 0; i < 3; i++) if (hbs[i] && !query_heart_beat(hbs[i])) hbs[i]->on(); }
void hb_destruct() { int p = pos < 0 ? 0 : pos; if (hbs[p]) { debug_message("@@hbgone " + p); destruct(hbs[p]); } }
