// C16: inherited part of the save/restore subject
mixed bv;
static mixed bsv;
