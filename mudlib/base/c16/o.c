// C16: save/restore subject. Variables of every persistence class:
inherit "/c16/base";
mixed v;            // the value under test
static mixed sv;    // static: never written, keeps its value across restore_object()
object ov;          // object-valued: comes back as 0
int marker;
string pad;
void create() { seteuid(getuid()); }
int do_save(string f, int z) { return save_object(f, z); }
int do_restore(string f, int nc) { return restore_object(f, nc); }
string do_sv(mixed x) { return save_variable(x); }
mixed do_rv(string s) { return restore_variable(s); }
// the save text held in a variable and used twice: ({ pristine copy, holder after use, first restore, second restore })
string gs;
mixed *do_twice_local(mixed x) { string orig = save_variable(x); string s = save_variable(x); mixed a, b; a = restore_variable(s); b = restore_variable(s); return ({ orig, s, a, b }); }
mixed *do_twice_global(mixed x) { string orig = save_variable(x); mixed a, b; gs = save_variable(x); a = restore_variable(gs); b = restore_variable(gs); return ({ orig, gs, a, b }); }
mixed *do_twice_array(mixed x) { string orig = save_variable(x); mixed *h = ({ save_variable(x), 0 }); mixed a, b; h[1] = h[0]; a = restore_variable(h[0]); b = restore_variable(h[1]); return ({ orig, h[0], a, b }); }
