// C16: save/restore subject. Variables of every persistence class:
inherit "/c16/base";
mixed v;            // the value under test
static mixed sv;    // static: never written, keeps its value across restore_object()
object ov;          // object-valued: comes back as 0
int marker;
string pad;
void create() { seteuid(getuid()); }
int do_save(string f, int z) { return save_object(f, z); }
int do_restore(string f, int nc) { return restore_object(f, nc); }
string do_sv(mixed x) { return save_variable(x); }
mixed do_rv(string s) { return restore_variable(s); }
