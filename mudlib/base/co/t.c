// C10 target: issues call_outs, logs firings, runs a harness-assigned script inside callbacks
mixed *log = ({});
mapping script = ([]);
mapping handles = ([]);

int shared;                     // 1: every string-named call_out of an object uses the same function name
void set_shared(int s) { shared = s; }
int query_shared() { return shared; }
#define NM(id) ("/co/t"->query_shared() ? "cbs" : "cb" + (id))
void set_script(int id, mixed *s) { script[id] = s; }
int handle_of(int id) { return handles[id]; }
void sethandle(int id, int h) { handles[id] = h; }
#define H(id) ((int)"/co/t"->handle_of(id))
mixed *take_log() { mixed *l = log; log = ({}); return l; }
void append(mixed *e) { log += ({ e }); }
#define LOG(e) "/co/t"->append(e)
void run(mixed *s);

private void fired(int id, string arg) {
  LOG(({ "fire", id, arg, time() }));
  if (script[id]) { mixed *s = script[id]; map_delete(script, id); run(s); }
}
void cb0(int id, string arg) { fired(id, arg); }
void cb1(int id, string arg) { fired(id, arg); }
void cb2(int id, string arg) { fired(id, arg); }
void cb3(int id, string arg) { fired(id, arg); }
void cb4(int id, string arg) { fired(id, arg); }
void cb5(int id, string arg) { fired(id, arg); }
void cb6(int id, string arg) { fired(id, arg); }
void cb7(int id, string arg) { fired(id, arg); }
void cbs(int id, string arg) { fired(id, arg); }

int co(int id, int d) {
  int h = call_out(NM(id), d, id, "a" + id);
  "/co/t"->sethandle(id, h);
  return h;
}
int cofp(int id, int d) {
  int h;
  switch (id) {
    case 0: h = call_out((: cb0 :), d, id, "a" + id); break;
    case 1: h = call_out((: cb1 :), d, id, "a" + id); break;
    case 2: h = call_out((: cb2 :), d, id, "a" + id); break;
    case 3: h = call_out((: cb3 :), d, id, "a" + id); break;
    case 4: h = call_out((: cb4 :), d, id, "a" + id); break;
    case 5: h = call_out((: cb5 :), d, id, "a" + id); break;
    case 6: h = call_out((: cb6 :), d, id, "a" + id); break;
    default: h = call_out((: cb7 :), d, id, "a" + id); break;
  }
  "/co/t"->sethandle(id, h);
  return h;
}
int rmh(int id) { return remove_call_out(H(id)); }
int rmn(int id) { return remove_call_out(NM(id)); }
int findh(int id) { return find_call_out(H(id)); }
int findn(int id) { return find_call_out(NM(id)); }
// time left by handle for ids 0..11 (the harness works out which entry a by-name removal took)
int *probe() { int *r = allocate(12); int i; for (i = 0; i < 12; i++) r[i] = find_call_out(H(i)); return r; }
int rmall() { return remove_call_out(); }
void selfdestruct() { destruct(this_object()); }

// script ops: ({ "co", id, d }) ({ "cofp", id, d }) ({ "rmh", id }) ({ "rmn", id }) ({ "findh", id }) ({ "err" }) ({ "dest" })
void run(mixed *s) {
  switch (s[0]) {
    case "co":    co(s[1], s[2]); LOG(({ "cb-co", s[1], s[2] })); break;
    case "cofp":  cofp(s[1], s[2]); LOG(({ "cb-cofp", s[1], s[2] })); break;
    case "rmh":   LOG(({ "cb-rmh", s[1], rmh(s[1]) })); break;
    case "rmn":   { int r = rmn(s[1]); LOG(({ "cb-rmn", s[1], r, probe() })); } break;
    case "findh": LOG(({ "cb-findh", s[1], findh(s[1]) })); break;
    case "findn": LOG(({ "cb-findn", s[1], findn(s[1]) })); break;
    case "err":   error("C10 callback error\n"); break;
    case "dest":  destruct(this_object()); break;
  }
}
