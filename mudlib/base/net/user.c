// user object for the network harnesses: logs every line it is given
mixed *ulog = ({});
int nlogon;
void logon() { nlogon++; }
mixed process_input(mixed s) { ulog += ({ s }); return 1; }
mixed *query_ulog() { return ulog; }
void net_dead() { ulog += ({ "<net_dead>" }); }
void terminal_type(string t) { ulog += ({ "<ttype:" + t + ">" }); }
void window_size(int w, int h) { ulog += ({ "<naws:" + w + "x" + h + ">" }); }
void telnet_suboption(string s) { ulog += ({ "<sb:" + strlen(s) + ">" }); }
void write_prompt() { }
