// verification simul_efun (base)
int sefun_add(int a, int b) { return a + b; }
string sefun_tag() { return "sefun"; }
