// C11 heart-beat object: logs every heart_beat and runs the one-shot script the harness poked into op/tgt/val
int op, tgt, val;      // MUST stay the first three variables (the harness writes them directly)
int id = -1;
#define LOG(e) "/hb/log"->add(e)

void create() {
  int n;
  seteuid(getuid(this_object()));
  id = "/hb/log"->claim(this_object(), clonep(this_object()));
  n = "/hb/log"->claim_n();
  if (id >= 0 && n) set_heart_beat(n);
}
int query_id() { return id; }
int shb(int v) { set_heart_beat(v); return query_heart_beat(this_object()); }
void die() { destruct(this_object()); }
// careless object: goes on after its own destruction (records first: call_other from a destructed object does nothing)
void zombie(int v) { LOG(({ "op", id, "dest", id, 0 })); LOG(({ "op", id, "zombie-shb", id, v })); destruct(this_object()); set_heart_beat(v); }

// ops: 8 self set_heart_beat(val); 9 reload_object(tgt) whose create() enables interval val; 1 self off; 2 other->shb(val); 3 destruct self; 4 destruct other; 5 clone /hb/t; 6 clone /hb/u; 7 error
void run(int o, int t, int v) {
  object x;
  switch (o) {
    case 1: set_heart_beat(0); LOG(({ "op", id, "shb", id, 0 })); break;
    case 2: x = "/hb/log"->ob(t); if (x) { x->shb(v); LOG(({ "op", id, "shb", t, v })); } else LOG(({ "op", id, "nop", t, v })); break;
    case 3: LOG(({ "op", id, "dest", id, 0 })); destruct(this_object()); break;
    case 4: x = "/hb/log"->ob(t); if (x) { destruct(x); LOG(({ "op", id, "dest", t, 0 })); } else LOG(({ "op", id, "nop", t, v })); break;
    case 5: x = "/hb/log"->make("/hb/t", t, v); LOG(({ "op", id, "clone-t", t, v, objectp(x) })); break;
    case 6: x = "/hb/log"->make("/hb/u", t, v); LOG(({ "op", id, "clone-u", t, v, objectp(x) })); break;
    case 8: set_heart_beat(v); LOG(({ "op", id, "shb", id, v })); break;                 // change the own interval from inside heart_beat
    case 9: "/hb/log"->reload(id, t, v); break;                                          // reload_object(t) (t may be this object)
    case 10: zombie(v); break;                                                           // destruct self, then set_heart_beat(val) on the destructed self
    case 7: LOG(({ "op", id, "err", id, 0 })); error("C11 heart_beat error\n"); break;
  }
}
void heart_beat() {
  LOG(({ "hb", id }));
  if (op) { int o = op; op = 0; run(o, tgt, val); }
}
