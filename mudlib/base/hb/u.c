// C11: second heart-beat program (separate blueprint, so cloning it does not touch /hb/t)
inherit "/hb/t";
