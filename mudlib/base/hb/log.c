// C11 logger / registry: never destructed, holds the per-tick log and the id -> object table
mixed *log = ({});
object *obs = ({ 0, 0, 0, 0 });
int next_id = -1, next_n = 0, next_clone = 0;
int drop = 0;                          // self-test: silently drop the drop-th "hb" record

void create() { seteuid(getuid(this_object())); }
void add(mixed *e) {
  if (drop > 0 && e[0] == "hb") { drop--; if (!drop) return; }
  log += ({ e });
}
void set_drop(int n) { drop = n; }
mixed *take_log() { mixed *l = log; log = ({}); return l; }
object ob(int i) { return (i >= 0 && i < sizeof(obs)) ? obs[i] : 0; }
// registration from create() of a heart-beat object that is being cloned/loaded through prep()
// (a blueprint that is (re)loaded on the way to a clone must not take the clone's id)
int claim(object o, int isclone) { int i = next_id; if (i < 0 || isclone != next_clone) return -1; obs[i] = o; next_id = -1; return i; }
int claim_n() { return next_n; }
void prep(int id, int n, int c) { next_id = id; next_n = n; next_clone = c; }
object make(string file, int id, int n) { prep(id, n, 1); return clone_object(file); }
object loadbp(string file, int id) { prep(id, 0, 0); return load_object(file); }
int qhb(int i) { return obs[i] ? query_heart_beat(obs[i]) : -1; }
// ids of heart_beats(): -2 for an element that is not one of ours
int *hb_ids() {
  object *h = heart_beats();
  int *r = allocate(sizeof(h));
  int i;
  for (i = 0; i < sizeof(h); i++) r[i] = objectp(h[i]) ? member_array(h[i], obs) : -3;
  return r;
}

// an object without heart beat that raises an uncaught error: from a driver-level apply (boom) or from a call_out
// processed in the call_out phase of a tick (sched_boom)
void boom() { add(({ "boom", -1 })); error("C11 unrelated error outside any heart_beat\n"); }
int sched_boom() { return call_out("boom", 1); }

// reload_object(obs[t]): the driver switches everything off and runs create() again, which claims the id back and
// enables the heart beat with interval v
int reload(int who, int t, int v) {
  object x = ob(t);
  if (!x) { add(({ "op", who, "nop", t, v })); return 0; }
  prep(t, v, clonep(x));
  reload_object(x);
  add(({ "op", who, "reload", t, v }));
  return 1;
}
