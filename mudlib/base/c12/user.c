// C12 user object: logs every buffered command it is handed ("@@" lines on the debug log are read by the harness)
#define PLAN "/c12/plan"
#define L(x) debug_message("@@" + (x))
int idx, cmode;
void create() { seteuid(getuid()); }
void logon() {
  idx = PLAN->next_index();
  cmode = PLAN->mode(idx);
  enable_commands();
  add_action("do_m", "m");
  add_action("do_s", "s", 1);
  add_action("do_x", "x");
  L("logon " + idx);
  if (cmode) get_char("gc");
}
mixed process_input(string s) {
  L("pi " + idx + " " + s);
  if (s == "m" || s == "x") return 0;     // let the verb run (m: three commands through command(); x: raises an error)
  if (s == "e") { L("err " + idx); error("c12: uncaught error in process_input\n"); }
  if (s == "j") input_to("itx");          // the next buffered line goes to a callback that raises an error
  if (s == "q") { L("gone " + idx); destruct(this_object()); }
  if (s == "i") input_to("it", PLAN->query_fl());   // the next buffered line goes to it(); the flags word is the mudlib's
  if (s == "g") get_char("it", PLAN->query_fl());
  return 1;
}
void it(string s) { L("it " + idx + " " + s); }
void itx(string s) { L("it " + idx + " " + s); L("err " + idx); error("c12: uncaught error in input_to callback\n"); }
int do_x(string a) { L("err " + idx); error("c12: uncaught error in verb\n"); return 1; }
int do_m(string a) { command("s1"); command("s2"); if (PLAN->query_st() != 2) command("s3"); return 1; }
int do_s(string a) { L("sub " + idx + " " + query_verb()); return 1; }
void gc(string c) { L("gc " + idx + " " + c); get_char("gc"); }
void net_dead() { L("netdead " + idx); destruct(this_object()); }
void write_prompt() { }
