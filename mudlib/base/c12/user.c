// C12 user object: logs every buffered command it is handed ("@@" lines on the debug log are read by the harness)
#define PLAN "/c12/plan"
#define L(x) debug_message("@@" + (x))
int idx, cmode;
void create() { seteuid(getuid()); }
void logon() {
  idx = PLAN->next_index();
  cmode = PLAN->mode(idx);
  enable_commands();
  add_action("do_m", "m");
  add_action("do_s", "s", 1);
  L("logon " + idx);
  if (cmode) get_char("gc");
}
mixed process_input(string s) {
  L("pi " + idx + " " + s);
  if (s == "m") return 0;                 // let the verb run: it issues three commands through command()
  if (s == "q") { L("gone " + idx); destruct(this_object()); }
  if (s == "i") input_to("it", PLAN->query_fl());   // the next buffered line goes to it(); the flags word is the mudlib's
  if (s == "g") get_char("it", PLAN->query_fl());
  return 1;
}
void it(string s) { L("it " + idx + " " + s); }
int do_m(string a) { command("s1"); command("s2"); if (PLAN->query_st() != 2) command("s3"); return 1; }
int do_s(string a) { L("sub " + idx + " " + query_verb()); return 1; }
void gc(string c) { L("gc " + idx + " " + c); get_char("gc"); }
void net_dead() { L("netdead " + idx); destruct(this_object()); }
void write_prompt() { }
