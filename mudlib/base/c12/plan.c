// C12: per-user modes handed out in logon order (set by the harness before backend() starts)
int *modes = ({ 0, 0, 0, 0, 0, 0, 0, 0 });
int next = 0;
void create() { seteuid(getuid()); }
void set_mode(int i, int m) { modes[i] = m; }
int next_index() { return next++; }
int mode(int i) { return (i >= 0 && i < sizeof(modes)) ? modes[i] : 0; }
int st = 0;   // self-test of the check: 2 = the verb "m" issues only two of its three commands
void set_st(int s) { st = s; }
int query_st() { return st; }
int fl = 0;   // flags word the special first lines `i` / `g` pass to input_to() / get_char()
void set_fl(int f) { fl = f; }
int query_fl() { return fl; }
