// verification master (base): policies are data; every error it is handed is logged
mapping pol = ([]);
mixed *errors = ({});
string last_error = "";
mixed *mlog = ({});

void set_policy(string k, mixed v) { pol[k] = v; }
mixed query_policy(string k) { return pol[k]; }
string query_last_error() { string e = last_error; last_error = ""; return e; }
mixed *query_errors() { return errors; }
void clear_errors() { errors = ({}); last_error = ""; }
mixed *query_mlog() { return mlog; }
void clear_mlog() { mlog = ({}); }

mixed error_handler(mapping m, int caught) {
  if (pol["error_handler_fails"]) error("master error_handler failing on purpose\n");
  if (!caught) last_error = m["error"];
  errors += ({ ({ m["error"], m["file"], m["line"], m["object"] ? file_name(m["object"]) : 0, m["program"], caught }) });
  return 0;
}

object connect(int port) {
  object ob;
  mlog += ({ ({ "connect", port }) });
  if (pol["connect_fails"]) error("connect failing on purpose\n");
  ob = new(pol["user_file"] ? pol["user_file"] : "/user.c");
  return ob;
}

string creator_file(string file) {
  string d;
  if (pol["log_uid"]) mlog += ({ ({ "creator_file", file }) });
  if (!undefinedp(pol["creator_file_ret"])) return pol["creator_file_ret"];
  if (sscanf(file, "/%s/%*s", d) == 2 || sscanf(file, "%s/%*s", d) == 2) {
    if (d == "w1" || d == "w2") return d;
    if (d == "bb") return "BB";
  }
  return "Root";
}
string get_root_uid() { return "Root"; }
string get_bb_uid() { return "BB"; }
int valid_seteuid(object ob, string newuid) {
  if (pol["log_uid"]) mlog += ({ ({ "valid_seteuid", file_name(ob), newuid }) });
  if (undefinedp(pol["valid_seteuid"])) return 1;
  if (pol["valid_seteuid"] == "own") return newuid == getuid(ob);
  return pol["valid_seteuid"];
}
// policy "reenter": the master does file I/O of its own before it answers (ACL-file style masters).
//   "<efun>:<path>" = that efun on that path, "same" = the efun it is being asked about, on the same path.
// The nested efun asks the master again; that inner question is answered without re-entering.
int reentering;
void reenter_op(string e, string p) {
  switch (e) {
  case "read_file": read_file(p); break;
  case "read_bytes": read_bytes(p, 0, 1); break;
  case "file_size": file_size(p); break;
  case "get_dir": case "stat": get_dir(p); break;
  case "write_file": write_file(p, "m\n"); break;
  case "write_bytes": write_bytes(p, 0, "m"); break;
  default: file_size(p);
  }
}
void reenter(string path, string fn) {
  mixed r = pol["reenter"];
  string e, p;
  if (!stringp(r) || reentering) return;
  reentering = 1;
  mlog += ({ ({ "reenter_begin", r, 0, 0 }) });
  if (r == "same") { e = fn; p = path; }
  else if (sscanf(r, "%s:%s", e, p) != 2) { e = "file_size"; p = r; }
  catch(reenter_op(e, p));
  mlog += ({ ({ "reenter_end", r, 0, 0 }) });
  reentering = 0;
}
mixed valid_read(string path, mixed caller, string fn) {
  if (pol["log_fs"]) mlog += ({ ({ "valid_read", path, objectp(caller) ? file_name(caller) : caller, fn }) });
  reenter(path, fn);
  if (undefinedp(pol["valid_read"])) return 1;
  return pol["valid_read"];
}
mixed valid_write(string path, mixed caller, string fn) {
  if (pol["log_fs"]) mlog += ({ ({ "valid_write", path, objectp(caller) ? file_name(caller) : caller, fn }) });
  reenter(path, fn);
  if (undefinedp(pol["valid_write"])) return 1;
  return pol["valid_write"];
}
int valid_object(object ob) { if (undefinedp(pol["valid_object"])) return 1; return pol["valid_object"]; }
int valid_bind(object a, object b, object c) { return 1; }
int valid_hide(object ob) { return 1; }
int valid_override(string file, string name) { return 1; }
int valid_save_binary(string file) { return !undefinedp(pol["save_binary"]) && pol["save_binary"]; }
int valid_socket(object ob, string fn, mixed *info) { return 0; }
int valid_link(string a, string b) { return 1; }
string get_save_file_name(string f, mixed who) {
  if (pol["log_fs"]) mlog += ({ ({ "get_save_file_name", f, objectp(who) ? file_name(who) : who, "ed" }) });
  if (!undefinedp(pol["ed_save_name"])) return pol["ed_save_name"];
  return f + ".edsave";
}
string make_path_absolute(string f) { return f; }
