// C14 user object: writes are issued from LPC through receive() (-> add_message), flushes through flush_messages()
void logon() { }
mixed process_input(mixed s) { return 1; }
void w(string s) { receive(s); }
void fl(int all) { if (all) flush_messages(); else flush_messages(this_object()); }
void net_dead() { destruct(this_object()); }
void write_prompt() { }
