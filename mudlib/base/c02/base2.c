// C02: second inherit
int base2_var;
mixed *base2_list = ({ 1, "two", 3.0 });
int base2_len() { return sizeof(base2_list); }
string base_tag() { return "base2"; }
