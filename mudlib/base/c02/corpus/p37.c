int Lfoo ( ) ;
mixed f ( ) {
return ( { L"wide" , L'w' , 'x' , "narrow" , Lfoo ( ) } ) ;
}
int Lfoo ( ) { int Lx ; Lx = 1 ; return Lx ; }
