int f ( int a , int b ) {
int r ;
r = ( a > 1 && b < 2 ) || ( a == 3 && ! b ) || a != b && a >= 4 || b <= 5 ;
r = a ? b ? 1 : 2 : b ? 3 : 4 ;
r = ! a ? 1 : 2 ;
if ( a != 0 ) r = 1 ; if ( 0 != a ) r = 2 ; if ( a == 0 ) r = 3 ; if ( 0 == a ) r = 4 ; if ( ! ( a == b ) ) r = 5 ; if ( a >= b ) r = 6 ; if ( a <= b ) r = 7 ; if ( ! ( a < b ) ) r = 8 ; if ( ! ( a > b ) ) r = 9 ;
while ( a != 0 ) a -- ; while ( ! b ) b ++ ; while ( a < b ) a ++ ; while ( 0 ) ; do r ++ ; while ( 0 ) ;
return r || a || b || 1 ;
}
