#pragma no_strict_types
later ( ) ;
caller ( ) { return later ( ) + undefined_here ( 1 , 2 ) ; }
later ( ) { return 1 ; }
undefined_here ( a , b ) { return a + b ; }
