#define A 1
#if A
int a1 ;
#else
int a0 ;
#endif
#if A == 2
int b2 ;
#elif A == 1
int b1 ;
#else
int b0 ;
#endif
#ifdef A
int c1 ;
#endif
#ifndef NOPE
int d1 ;
#else
int d0 ;
#endif
#if defined( A ) && ! defined( NOPE ) && ( A + 1 ) * 2 > 3 || 0
int e1 ;
#if 0
garbage here ( ( (
#if 1
more
#endif
#else
int e2 ;
#endif
#endif
#if A ? 1 : 0
int f1 ;
#endif
#if 0x10 == 16 && 010 == 8 && - 1 < 0 && ~ 0 && 7 % 4 == 3 && 8 / 2 == 4 && 1 << 2 == 4 && 8 >> 1 == 4 && ( 5 & 3 ) == 1 && ( 5 | 2 ) == 7 && ( 5 ^ 1 ) == 4 && 2 >= 2 && 1 <= 2 && 3 != 4
int g1 ;
#endif
int f ( ) { return a1 + b1 + c1 + d1 + e1 + e2 + f1 + g1 ; }
