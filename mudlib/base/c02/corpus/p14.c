mixed f ( int x ) {
function a , b ;
a = function ( int p , int q ) { int r ; r = p + q ; return r ; } ;
b = function ( ) { return function ( int z ) { int w = z ; return w * 2 ; } ; } ;
return ( { a , b , function ( mixed m ) { foreach ( mixed e in m ) { if ( e ) return e ; } return 0 ; } , function ( int n ) { switch ( n ) { case 1 : return "a" ; default : return "b" ; } } } ) ;
}
