static int a ; private string b ; nomask mixed c ; public object d ; protected mapping e ; static private nomask float f ;
int * g ; string * h = ( { "x" } ) ; mixed * i , j , * k ;
mapping m = ( [ ] ) ; function fn ; buffer bf ; void nothing ( ) { }
static private varargs nomask mixed * z ( int q ) { return ( { a , b , c , d , e , f , g , h , i , j , k , m , fn , bf , q } ) ; }
