#pragma no_strict_types
int proto ( int , string ) ;
int proto2 ( int a , string * b ) ;
void many ( int a , string b , object c , mapping d , function e , float f , buffer g , mixed h , mixed * i , int * j ) { }
int proto ( int x , string y ) { return x ; }
int proto2 ( int a , string * b ) { return sizeof ( b ) + a ; }
untyped ( a , b ) { return a ; }
