int f ( int n ) {
int i , s ;
while ( n > 0 ) n -- ;
while ( i < 5 ) { i ++ ; if ( i == 2 ) continue ; if ( i == 4 ) break ; s += i ; }
do s ++ ; while ( s < 10 ) ;
do { s -= 2 ; } while ( s > 0 ) ;
for ( i = 0 ; i < 3 ; i ++ ) s += i ;
for ( ; ; ) { break ; }
for ( int j = 0 ; j < 2 ; j ++ ) { s += j ; }
for ( i = 0 , s = 0 ; i < 2 ; i ++ , s ++ ) ;
while ( n -- ) ;
return s ;
}
