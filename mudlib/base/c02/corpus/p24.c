// line comment
/* block comment */
int f ( ) { /* inside */ return 1 ; // trailing
}
/* multi
line * comment / with ** stars */
int g ( ) { return 2 /* mid */ + 3 ; }
