private :
int hidden ;
public :
int shown ;
int get ( ) { return hidden + shown ; } ;
