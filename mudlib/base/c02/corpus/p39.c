int write ;
int time ( ) { return 7 ; }
int f ( int strlen ) { int sizeof ; sizeof = strlen + write ; return sizeof + time ( ) + efun :: time ( ) ; }
mixed g ( ) { int keys ; return function ( int values ) { int keys ; keys = values ; return keys ; } ; }
