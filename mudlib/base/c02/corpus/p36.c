int a1 ( ) { return 1 ; } int a2 ( ) { return a1 ( ) ; } int a3 ( ) { return a2 ( ) ; } int a4 ( ) { return a3 ( ) ; }
int zz ( ) { return a4 ( ) ; } int aa ( ) { return zz ( ) ; } int mm ( ) { return aa ( ) + zz ( ) ; }
static int s1 ( ) { return mm ( ) ; } private int p1 ( ) { return s1 ( ) ; } nomask int n1 ( ) { return p1 ( ) ; }
