int g ;
string h = "s" ;
mixed f ( int a , string b ) { int l ; mixed m ; l = a ; m = b ; return l ; }
int k ( ) { return 1 ; }
