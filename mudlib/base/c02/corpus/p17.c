object o ;
mixed f ( object ob , string fn ) {
mixed r ;
r = ob -> query ( ) ; r = ob -> set ( 1 , "two" ) ; r = call_other ( ob , fn , 1 ) ; r = ob -> a ( ) -> b ( ) ;
r = "/c02/base" -> base_tag ( ) ; r = this_object ( ) -> f ( ob , fn ) ; r = ( ob ) -> q ( r ... ) ;
o = new ( "/c02/base" ) ; o = clone_object ( "/c02/base" ) ;
return r ;
}
