mixed f ( mixed * a ) {
return ( { map ( a , ( : $1 + 1 : ) ) , filter ( a , ( : $1 > 1 : ) ) , sort_array ( a , 1 ) , implode ( ( { "a" , "b" } ) , "," ) , explode ( "a,b" , "," ) , keys ( ( [ 1 : 2 ] ) ) , values ( ( [ 1 : 2 ] ) ) , allocate ( 3 ) , this_object ( ) , previous_object ( ) , file_name ( this_object ( ) ) } ) ;
}
