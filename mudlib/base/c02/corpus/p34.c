int f ( int a ) {
int s ;
for ( int i = 0 ; i < 3 ; i ++ ) { switch ( i ) { case 0 : continue ; case 1 : break ; default : s ++ ; } s += 10 ; }
foreach ( int v in ( { 1 , 2 , 3 } ) ) { switch ( v ) { case 1 : continue ; case 2 : break ; case 3 : return s ; } }
while ( a ) { switch ( a ) { case 1 .. 5 : a -- ; continue ; default : a = 0 ; } break ; }
return s ;
}
