mixed f ( mixed x , int i , int j ) {
x [ i ] [ j ] = 1 ; x [ i ] [ < j ] = 2 ; x [ i ] [ j .. ] = ( { } ) ; ( x [ i ] = ( { 0 } ) ) [ 0 ] = 3 ;
x [ i ] ++ ; x [ i ] -- ; ++ x [ i ] ; -- x [ < i ] ; x [ i ] += 1 ; x [ < i ] -= 1 ;
return x [ i ] [ j ] + x [ < i ] [ < j ] + ( x ) [ 0 ] ;
}
