int g1 = 1 , g2 = g1 + 1 ;
string s1 = "a" + "b" , s2 = s1 + 3 ;
float f1 = 2 , f2 = 1.5 ;
mixed * arr = ( { g1 , s1 , f1 , ( : g2 : ) } ) ;
mapping mp = ( [ s1 : g1 , "fn" : function ( int q ) { return q ; } ] ) ;
function fn = ( : $1 + g1 : ) ;
object me = this_object ( ) ;
int get ( ) { return g1 + g2 + sizeof ( arr ) + sizeof ( mp ) ; }
