int g ;
int f ( mixed x ) {
g = intp ( x ) + stringp ( x ) + arrayp ( x ) + mapp ( x ) + objectp ( x ) + functionp ( x ) + floatp ( x ) + bufferp ( x ) + undefinedp ( x ) + nullp ( x ) + classp ( x ) ;
g += to_int ( "3" ) + to_int ( 2.5 ) + sizeof ( x ) + strlen ( "abc" ) + member_array ( 1 , ( { 1 } ) ) + random ( 1 ) + time ( ) ;
write ( "x" ) ; printf ( "%d %s\n" , 1 , "s" ) ; g = strlen ( sprintf ( "%O" , x ) ) ;
return g ;
}
