float f ( float x , int n ) {
float y ;
y = x + n ; y = n + x ; y = x - 1 ; y = 2 * x ; y = x / 2 ; y = 1.5 + 2.5 ; y = 3.0 * 2 ; y = 7 / 2.0 ; y = 1e3 ; y = 2.5e-2 ; y = 1.0f ;
y += 1 ; y -= 0.5 ; y *= 2 ; y /= 4 ; y ++ ; -- y ;
y = - x ; y = - 2.5 ; y = 0 + x ; y = x + 0 ; y = 0 - x ;
return y > 1.0 ? y : ( float ) n ;
}
