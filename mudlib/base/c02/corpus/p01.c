#pragma strict_types
inherit "/c02/base" ;
private static int count ;
public nomask string name ( ) { return base_tag ( ) ; }
protected void bump ( int by ) { count += by ; }
varargs int opt ( int a , int b ) { return a + b ; }
void create ( ) { :: create ( ) ; bump ( 2 ) ; }
