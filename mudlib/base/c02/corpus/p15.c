int f ( string s ) {
int a , b ; string c , d ; mixed e ;
a = sscanf ( s , "%d" , b ) ; a = sscanf ( s , "%s %d" , c , b ) ; a = sscanf ( s , "x" ) ;
a = parse_command ( s , ( { } ) , "%s" , c ) ; a = parse_command ( s , this_object ( ) , "%s %s" , c , d ) ;
e = catch ( a = 1 / b ) ; e = catch { a = 2 ; b = 3 ; } ; e = catch ( error ( "x" ) ) ;
a = time_expression ( b = 1 ) ; a = time_expression { b = 2 ; c = "q" ; } ;
return a ;
}
