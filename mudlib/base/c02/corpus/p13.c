int g ;
int add ( int a , int b ) { return a + b ; }
mixed f ( int x ) {
function a , b , c , d , e , h ;
a = ( : add : ) ; b = ( : add , 1 : ) ; c = ( : $1 + $2 : ) ; d = ( : g : ) ; e = ( : write : ) ; h = ( : sefun_add , 2 : ) ;
a = ( : this_object ( ) , "add" : ) ; b = ( : $1 + $( x ) : ) ; c = ( : ( : $1 * 2 : ) : ) ; d = ( : add ( $1 , g ) : ) ;
return ( * a ) ( 1 , 2 ) + evaluate ( b , 3 ) + ( * c ) ( ) + sizeof ( ( { d , e , h } ) ) ;
}
