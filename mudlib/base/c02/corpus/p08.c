string f ( int a , string s ) {
switch ( a ) { case 1 : return "one" ; case 2 : case 3 : return "few" ; default : break ; }
switch ( a ) { case -10 .. -1 : return "neg" ; case 0 : return "zero" ; case 1 .. 10 : return "small" ; }
switch ( a ) { case 5 : s = "five" ; break ; case 5000 : s = "big" ; break ; case 70000 : s = "huge" ; }
switch ( s ) { case "a" : return "A" ; case "b" : case "c" : return "BC" ; case 0 : return "nul" ; default : return s ; }
switch ( a ) { int t ; case 1 + 2 * 3 : t = a ; return "seven" ; case ( 8 | 1 ) : return "nine" ; case 16 >> 2 : case 1 << 5 : case 100 / 7 : case 100 % 7 : case 6 ^ 3 : case 12 & 10 : case 20 - 1 : return "k" ;
case 1 == 1 : case - 3 : case ~ 5 : case ! 0 + 40 : case ( 2 < 3 ) + 50 : case ( 3 >= 2 ) + 60 : case ( 2 != 2 ) + 70 : case ( 2 <= 1 ) + 80 : case ( 3 > 1 ) + 90 : return "c" ; }
return "none" ;
}
