int f ( int a ) {
{ int b ; b = a ; { int c ; c = b ; { int d = c ; a = d ; } } }
{ string a2 ; a2 = "s" ; }
{ ; ; }
{ }
return a ;
}
