int heart ;
void heart_beat ( ) { heart ++ ; }
void create ( ) { set_heart_beat ( 1 ) ; call_out ( "tick" , 2 , 1 ) ; call_out ( ( : heart_beat : ) , 1 ) ; }
void tick ( int n ) { remove_call_out ( "tick" ) ; }
void reset ( ) { heart = 0 ; }
int clean_up ( int inh ) { return 1 ; }
void init ( ) { add_action ( "cmd" , "go" ) ; }
int cmd ( string s ) { return notify_fail ( "no\n" ) ; }
