private inherit "/c02/base" ;
static inherit "/c02/base2" ;
int own ;
int f ( ) { return base_add ( 1 , own ) + base_fixed ( ) + base2_len ( ) ; }
string base_tag ( ) { return "mine" ; }
