mixed g ;
int f ( mixed * a , mapping m ) {
int s ; mixed v ; string k ;
foreach ( v in a ) s += v ;
foreach ( k , v in m ) { s += v ; if ( s > 9 ) break ; }
foreach ( int z in a ) { s += z ; continue ; }
foreach ( g in a ) s ++ ;
foreach ( string kk , mixed vv in m ) return s ;
return s ;
}
