inherit "/c02/base" ;
inherit "/c02/" + "base2" ;
int base_add ( int a , int b ) { return :: base_add ( a , b ) + 1 ; }
string t ( ) { return base :: base_tag ( ) + base2 :: base_tag ( ) + :: base_tag ( ) ; }
int u ( ) { return efun :: strlen ( "abc" ) + efun :: sizeof ( ( { } ) ) + base2_len ( ) ; }
object v ( ) { return efun :: new ( "/c02/base" ) ; }
