int f ( int a , int b ) {
int r ;
r = a ; r += b ; r -= 1 ; r *= 2 ; r /= 3 ; r %= 7 ; r &= 255 ; r |= 16 ; r ^= 5 ; r <<= 2 ; r >>= 1 ;
r = a ? b : r ;
r = a || b ; r = a && b ; r = a | b ; r = a ^ b ; r = a & b ;
r = a == b ; r = a != b ; r = a >= b ; r = a <= b ; r = a > b ; r = a < b ;
r = a << b ; r = a >> b ; r = a + b ; r = a - b ; r = a * b ; r = a % ( b + 1 ) ; r = a / ( b + 1 ) ;
r = ( int ) a ; r = ++ a ; r = -- a ; r = ! a ; r = ~ a ; r = - a ; r = a ++ ; r = a -- ;
r = 1 + 2 * 3 - 4 / 2 % 3 ; r = ( a , b ) ;
return r ;
}
