string a ( ) { return @END
first line
 second "quoted" line \ with backslash
END
; }
string * b ( ) { return @@END
one
two "2"
END
; }
string c ( ) { return @E
x
E + "tail" ; }
