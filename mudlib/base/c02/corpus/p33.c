#pragma strict_types
#pragma save_types
int typed ( int a , string b , mixed * c ) { return a + strlen ( b ) + sizeof ( c ) ; }
void create ( ) { typed ( 1 , "b" , ( { } ) ) ; }
string conv ( mixed m ) { return ( string ) m ; }
int * nums ( ) { return ( { 1 , 2 } ) ; }
mixed any ( mixed x ) { int * p ; p = ( int * ) x ; return p [ 0 ] ; }
