class point { int x ; int y ; string * tags ; }
class seg { class point a , b ; }
class point origin ;
class point mk ( int x , int y ) { class point p ; p = new ( class point ) ; p -> x = x ; p -> y = y ; return p ; }
class seg mk2 ( ) { return new ( class seg , a : mk ( 0 , 0 ) , b : new ( class point , x : 1 , y : 2 ) ) ; }
int len ( class seg s ) { return s -> b -> x - s -> a -> x ; }
