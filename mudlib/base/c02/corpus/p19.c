#define ONE 1
#define TWO ( ONE + ONE )
#define ADD( a , b ) ( ( a ) + ( b ) )
#define PASTE(a,b) a##b
#define STR "text"
#define MULTI( x ) ( x + \
 1 )
#undef ONE
#define ONE 11
int xy ;
int f ( ) { return TWO + ADD ( 1 , 2 ) + PASTE(x,y) + strlen ( STR ) + MULTI ( 3 ) + ADD ( ADD ( 1 , 2 ) , ( 3 , 4 ) ) ; }
