#include "a.h"
#include <sys.h>
#define HDR "a.h"
#include HDR
#pragma strict_types
#pragma save_types
#pragma warnings
#pragma no_warnings
#pragma optimize
#pragma show_error_context
#pragma no_show_error_context
#pragma unknown_thing
#echo hello from p21
int f ( ) { return SYS_H + A_H + A_ADD ( a_h_var , 1 ) ; }
string g ( ) { return __FILE__ + __DIR__ + __VERSION__ + __DRIVER__ ; }
int h ( ) { return __LPC__ ; }
