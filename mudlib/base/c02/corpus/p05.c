int f ( int a ) {
if ( a ) return 1 ;
if ( a > 1 ) a = 2 ; else a = 3 ;
if ( a == 2 ) { a = 4 ; } else if ( a != 3 ) { a = 5 ; } else ;
if ( ! a ) ; else a = 6 ;
return a ;
}
