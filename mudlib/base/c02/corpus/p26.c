varargs mixed va ( int a , mixed * rest ... ) { return sizeof ( rest ) + a ; }
mixed spread ( mixed * args ) { return va ( 1 , args ... ) + va ( args ... ) + va ( 1 , 2 , args ... , 3 ) ; }
mixed fp ( function f , mixed * args ) { return ( * f ) ( args ... ) + evaluate ( f , args ... ) ; }
