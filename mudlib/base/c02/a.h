#ifndef A_H
#define A_H 7
#define A_ADD(p,q) ((p)+(q))
int a_h_var;
#endif
