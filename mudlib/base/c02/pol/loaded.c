// helper the C02 policy master calls from applies made during a compile; loaded before the first compile
mixed *notes = ({});
mixed note(string which, mixed a, mixed b) { notes = ({ which }); return 0; }
