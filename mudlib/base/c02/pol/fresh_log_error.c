// never loaded before the log_error apply that calls it: the call has to compile it
mixed note(string which, mixed a, mixed b) { return 0; }
