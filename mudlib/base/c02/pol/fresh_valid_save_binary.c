// never loaded before the valid_save_binary apply that calls it: the call has to compile it
mixed note(string which, mixed a, mixed b) { return 0; }
