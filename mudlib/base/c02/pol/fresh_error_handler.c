// never loaded before the error_handler apply that calls it: the call has to compile it
mixed note(string which, mixed a, mixed b) { return 0; }
