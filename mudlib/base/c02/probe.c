// C02 probe: a feature-rich program compiled after every enumerated input; its address-independent dump
// must equal the dump of the same text compiled in the freshly booted driver.
#pragma strict_types
#pragma save_types
#define TWICE(v) ((v) * 2)
#define LONGTEXT "abc" \
   "def"
#if defined(TWICE) && !defined(NOPE)
#define FLAG 1
#else
#define FLAG 0
#endif
inherit "/c02/base";
private inherit "/c02/base2";
#include "a.h"

int g1 = 5, g2 = TWICE(21);
private string gs = "str\twith\x01\xffhigh" LONGTEXT;
static float gf = 2.5;
mapping gm = ([ "k" : 1, 2 : ({ 3, 4 }) ]);
mixed *ga = ({ 1, ({ 2 }), "x", 1.5, ([ ]) });
function gfun = (: base_add, 1 :);
class pair gp;
class item { string name; int *nums; mixed extra; }

int proto(int a, string b);
varargs string va(int a, string b, mixed *rest...);

void create() {
  ::create();
  gp = new(class pair, a : 1, b : "one");
  g1 = proto(g2, "z") + FLAG + a_h_var;
}

int proto(int a, string b) {
  int i, j;
  string s;
  mixed m;
  for (i = 0, j = 10; i < j; i++) { if (i == 3) continue; if (i > 7) break; a += i; }
  while (j--) a ^= j;
  do { a = a << 1 | 1; } while (a < 100000);
  foreach (m in ga) { if (stringp(m)) s = m; }
  foreach (s, m in gm) { a++; }
  s = b + "lit" + a + 1.5;
  s = s[1..] + s[0..<2] + s[<3..<1] + s[2..2];
  s[0] = 'q'; s[<1] = '\n';
  a = a > 5 ? (a < 9 || !a) && a != 7 : ~a % 3 - -a / 2;
  m = sscanf(s, "%d %s", i, b);
  m = catch(error("boom"));
  m = catch { j = 1 / a; };
  return base_add(a, TWICE(i)) + base::base_add(1, 2) + sefun_add(3, 4) + strlen(sefun_tag()) + to_int(gf) + 0x7fffffffffff + -129 + 70000;
}

varargs string va(int a, string b, mixed *rest...) {
  class item it = new(class item);
  it->name = b; it->nums = ({ a, sizeof(rest) }); it->extra = gp->b;
  switch (a) {
    case 0: return "zero";
    case 1: return "one";
    case 2: return it->name;
    case 3: break;
    default: b = "dflt";
  }
  switch (a) {
    case -5..5: b += "small"; break;
    case 100: b += "hundred"; break;
    case 1000..2000: b += "big";
  }
  switch (a) { case 11: case 700000: b += "sparse"; break; }
  switch (b) {
    case "alpha": a = 1; break;
    case "beta": case "gamma": a = 2; break;
    case 0: a = 3; break;
    default: a = 4;
  }
  return @TXT
text block line 1
 "quoted" \ line 2
TXT
  + b + a + implode(map(it->nums, (: $1 + $(a) :)), ",");
}

mixed funs(int n) {
  function f1 = (: proto :);
  function f2 = (: write :);
  function f3 = (: sefun_add, 1 :);
  function f4 = (: $1 + $2 + g1 :);
  function f5 = function(int p, int q) { int r = p * q; return function(int z) { return z + 1; }; };
  function f6 = (: this_object(), "va" :);
  mixed r = (*f5)(n, 2);
  return ({ f1, f2, f3, f4, evaluate(f4, 1, 2), r, f6, (: gm :), this_object()->va(1, "s"), efun::time() > 0, time() > 0, sizeof(ga), strlen(gs), sefun_add(1, 2) });
}

static nomask int locals(int a0, int a1, int a2) {
  int l0, l1, l2, l3, l4, l5, l6, l7, l8, l9;
  string inner_a, inner_b;
  l0 = a0; l1 = a1; l2 = a2; l3 = l0 + l1; l4 = l3 * l2; l5 = l4 - l0; l6 = l5 & 255; l7 = l6 | 1; l8 = l7 << 2; l9 = l8 >> 1;
  { int inner = l9; string inner2 = "i"; l0 = inner + strlen(inner2); }
  time_expression { l1 = l0; };
  return l0 + l1 + parse_command("get all", ({ }), "%s %s", inner_a, inner_b);
}
