int before;
#include "h08.c"
int after;
