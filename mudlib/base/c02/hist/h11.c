int f(int a0, int a1, int a2) {
  int l0, l1, l2, l3, l4, l5, l6, l7, l8, l9, l10, l11, l12, l13, l14, l15, l16, l17, l18, l19, l20, l21, l22, l23, l24, l25, l26;
  return l0 + l26;
}
