int f(string s) {
  switch (s) { case "north": return 1; case "south": return 2; case "east": case "west": return 3; case 0: return 4; }
  return 0;
}
string g(int a) { switch (a) { case 1..3: return "low"; case 10: return "ten"; } return @T
block
T
; }
