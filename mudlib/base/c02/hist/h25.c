int f() { return efun::time() > 0; }
string g(string s) { return efun::lower_case(s); }
