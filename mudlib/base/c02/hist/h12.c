mixed f() {
  int a0, a1, a2, a3, a4, a5, a6, a7, a8, a9, a10, a11, a12, a13, a14, a15, a16, a17, a18, a19;
  return function(int b0, int b1, int b2, int b3, int b4, int b5, int b6, int b7, int b8, int b9, int b10, int b11, int b12, int b13, int b14, int b15, int b16, int b17, int b18, int b19) {
    return function(int c0, int c1, int c2, int c3, int c4, int c5, int c6, int c7, int c8, int c9, int c10, int c11, int c12, int c13, int c14, int c15, int c16, int c17, int c18, int c19) { return c19; };
  };
}
