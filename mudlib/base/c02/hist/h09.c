inherit "/c02/hist/no_such_parent";
int f() { return 1; }
