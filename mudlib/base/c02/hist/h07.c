#include "does_not_exist.h"
int f() { return 1; }
