#pragma strict_types
#pragma save_types
#pragma warnings
inherit "/c02/base";
int typed(int a, string b) { return a + strlen(b) + base_add(1, 2); }
void create() { ::create(); }
