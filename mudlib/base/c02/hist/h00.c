int ok() { return 1; }
int broken( { return 2; }
int after() { return 3; }
