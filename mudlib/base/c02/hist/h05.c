int g;
mixed f() { return (: $1 + g
