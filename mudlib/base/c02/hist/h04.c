string s() { return @END
line one
line two
