inherit "/c02/hist/h00";
int f() { return ok(); }
