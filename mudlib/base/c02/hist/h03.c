int f() { return 1; }
/* comment never closed
int g() { return 2; }
