string s() { return "never closed; }
int g;
