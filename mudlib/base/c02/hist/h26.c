#pragma save_binary
int f() { return 1; }
