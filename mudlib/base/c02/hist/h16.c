mixed f() {
  int write, time, strlen;
  function q = function(int write, int sizeof) { int time; return function(int strlen) { return strlen; }; };
  return q + ;
}
