class pair { int a; }
class pair { string b; }
class pair p;
int f() { return p->nope; }
