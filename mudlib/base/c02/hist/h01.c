int g;
int f(int a) { int l; l = a +; g = l * ; return l; }
