#define LEFT_OVER 12345
#define FUNC_LIKE(a,b) ((a)*(b))
#undef __LPC__
#define __VERSION__ "fake"
int f() { return LEFT_OVER + FUNC_LIKE(2,3); }
