int f() { return efun::time() + ; }
int g() { return efun::no_such_efun(); }
