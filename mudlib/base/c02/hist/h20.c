#define A B B B B
#define B C C C C
#define C D D D D
#define D E E E E
#define E F F F F
#define F G G G G
#define G H H H H
#define H I I I I
#define I 1 +
int f() { return A 0; }
