int write;
string time;
int strlen(string s) { return 3; }
int sizeof(mixed m) { return 4; }
class keys { int a; }
int f() { return write + strlen("x") + sizeof(0); }
int g( { }
