string *f() { return @@END
one
two
