int f(int a) {
  switch (a) { case 1..5: return 1; case 3..7: return 2; default: return 3; default: return 4; case "s": return 5; }
  switch (a) { case 1: break; case 1: break; }
  return 0;
}
