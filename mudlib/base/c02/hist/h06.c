#define A 1
#if A
int x;
#ifdef B
int y;
#else
int z;
