mixed f() { return ({ L"wide string", L'w' }); }
