#define SYS_H 3
