// C02 policy master (installed as /master.c of the scratch mudlib by h_c02 --part=histpol; the shared base master becomes /master_base.c).
// Every apply the driver makes while a compile is running can itself call, load or fail:
// pol["c02_<apply>"] = 0 plain, 1 calls an object that is loaded, 2 calls an object that must be loaded (compiled) first, 3 raises an error
inherit "/master_base";

mixed c02_hook(string which, mixed a, mixed b) {
  switch (pol["c02_" + which]) {
  case 1: return "/c02/pol/loaded"->note(which, a, b);
  case 2: return ("/c02/pol/fresh_" + which)->note(which, a, b);
  case 3: error("c02 policy: " + which + " fails on purpose\n");
  }
  return 0;
}
void log_error(string file, string msg) { c02_hook("log_error", file, msg); }
int valid_override(string file, string name) { c02_hook("valid_override", file, name); return 1; }
int valid_save_binary(string file) { c02_hook("valid_save_binary", file, 0); return ::valid_save_binary(file); }
mixed error_handler(mapping m, int caught) { c02_hook("error_handler", m["error"], caught); return ::error_handler(m, caught); }
