// C02: inherited by the probe and by corpus programs
#pragma save_types
int base_var = 3;
string base_name = "base";
class pair { int a; string b; }
int base_add(int a, int b) { return a + b; }
string base_tag() { return "base:" + base_name; }
static int base_hidden(int q) { return q * 2; }
nomask int base_fixed() { return 42; }
void create() { base_var = 4; }
