// C02 probe for the scaled-down run (MaxLocalVariables 6): no function uses more than 6 locals+arguments
#pragma strict_types
#pragma save_types
#define TWICE(v) ((v) * 2)
inherit "/c02/base";
private inherit "/c02/base2";
#include "a.h"
int g1 = 5, g2 = TWICE(21);
private string gs = "str\twith\x01\xffhigh";
mapping gm = ([ "k" : 1, 2 : ({ 3, 4 }) ]);
mixed *ga = ({ 1, ({ 2 }), "x", 1.5 });
function gfun = (: base_add, 1 :);
class pair gp;
class item { string name; int *nums; }
int proto(int a, string b);
void create() { ::create(); gp = new(class pair, a : 1, b : "one"); g1 = proto(g2, "z") + a_h_var; }
int proto(int a, string b) {
  int i, j; string s; mixed m;
  for (i = 0, j = 10; i < j; i++) { if (i == 3) continue; a += i; }
  while (j--) a ^= j;
  foreach (m in ga) { if (stringp(m)) s = m; }
  s = b + "lit" + a; s = s[1..] + s[0..<2];
  m = sscanf(s, "%d %s", i, b);
  m = catch(error("boom"));
  return base_add(a, TWICE(i)) + base::base_add(1, 2) + sefun_add(3, 4) + 0x7fffffffffff + -129 + 70000;
}
string va(int a, string b) {
  class item it = new(class item);
  it->name = b; it->nums = ({ a });
  switch (a) { case 0: return "zero"; case 1: return "one"; case 2: return it->name; default: b = "dflt"; }
  switch (a) { case -5..5: b += "small"; break; case 1000..2000: b += "big"; }
  switch (a) { case 11: case 700000: b += "sparse"; break; }
  switch (b) { case "alpha": a = 1; break; case "beta": case "gamma": a = 2; break; case 0: a = 3; break; default: a = 4; }
  return @TXT
text block
TXT
  + b + a + implode(map(it->nums, (: $1 + $(a) :)), ",");
}
mixed funs(int n) {
  function f1 = (: proto :);
  function f4 = (: $1 + $2 + g1 :);
  function f5 = function(int p, int q) { int r = p * q; return function(int z) { int y = z; return y + 1; }; };
  return ({ f1, f4, evaluate(f4, 1, 2), (*f5)(n, 2), (: gm :), (: write :), (: sefun_add, 1 :), time() > 0, sizeof(ga), strlen(gs) });
}
