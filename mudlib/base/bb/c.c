// C20: file owned by creator of /bb/ (generated copy of the actor program)
// C20 actor: every op of the uid alphabet as a function; results are returned, errors propagate to the harness
mixed do_load(string f)   { return load_object(f); }
mixed do_clone(string f)  { return clone_object(f); }
mixed do_call(string f)   { return f->ping(); }           // call_other on a file name loads it
int ping() { return 1; }
mixed do_seteuid(mixed n) { return seteuid(n); }
mixed do_export(object o) { return export_uid(o); }
mixed uid_of(object o)    { return getuid(o); }
mixed euid_of(object o)   { return geteuid(o); }
mixed my_uid()            { return getuid(this_object()); }
mixed my_euid()           { return geteuid(this_object()); }
