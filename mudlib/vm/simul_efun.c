// verification simul_efun (vm-err checks)
int sefun_add(int a, int b) { return a + b; }
mixed vm_relay(object o, string fn) { mixed *t = ({ o, fn }); return sizeof(t) + call_other(o, fn); }
