// loaded by the C04 family master-burn (valid_object / creator_file applies)
void create() { }
