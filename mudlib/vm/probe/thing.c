mixed *log;
void setlog(mixed *l) { log = l; }
void go(object d) { move_object(d); }
int move_or_destruct(object to) { "/probe/p"->note("mod:" + (to ? "ob" : "0")); return 0; }
