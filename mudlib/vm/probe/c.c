int cv = 3; string cname() { return "c" + cv; }
