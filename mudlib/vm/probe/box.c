void dest() { destruct(this_object()); }
