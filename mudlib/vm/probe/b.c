inherit "/probe/c";
int bv = 2; string bname() { return "b" + bv + cname(); }
