// fixed probe evaluation (C05): its transcript must be the same after any failed evaluation as in a fresh driver
mixed *tr = ({});
void note(mixed x) { tr += ({ x }); }
void co_cb(string a) { note("co:" + a + ":" + (this_player() ? "tp" : "0")); }
void create() { seteuid(getuid()); }
int thrower() { throw(({ "thrown", 1 })); return 0; }
mixed *run() {
  object a, bx, t1, t2, lv; mixed e, e2; int i;
  tr = ({});
  note("this_player:" + (this_player() ? "set" : "0"));
  note("previous_object:" + (previous_object() ? "set" : "0"));
  note("query_verb:" + (query_verb() ? "set" : "0"));
  note("depth:" + sizeof(call_stack(0)));
  // 3-deep inherit chain, loaded now (c, b, a are not loaded before the probe)
  e = catch(a = load_object("/probe/a"));
  note("load:" + (e ? e : "ok"));
  if (a) note("chain:" + a->aname());
  // container with contents
  bx = new("/probe/box"); t1 = new("/probe/thing"); t2 = new("/probe/thing");
  t1->go(bx); t2->go(bx);
  note("inv:" + sizeof(all_inventory(bx)));
  e = catch(bx->dest());
  note("dest:" + (e ? e : "ok") + ":" + (bx ? "alive" : "gone") + ":" + (t1 ? "alive" : "gone") + ":" + (t2 ? "alive" : "gone"));
  // verb
  lv = new("/probe/liv");
  e = catch(i = lv->cmd("pv arg1"));
  note("cmd:" + (e ? e : "ok") + ":" + i);
  e = catch(i = lv->cmd("nosuch"));
  note("cmd2:" + (e ? e : "ok") + ":" + i);
  // nested catch
  e2 = 0;
  e = catch(e2 = catch(error("inner\n")));
  note(({ "nest", e, e2 }));
  e = catch(e2 = catch(thrower()));
  note(({ "nest2", e, e2 }));
  e = catch(thrower());
  note(({ "thr", e }));
  e = catch(i = 1 / (sizeof(tr) - sizeof(tr)));
  note(({ "div", e }));
  // call_out
  call_out("co_cb", 1, "x");
  note("fco:" + find_call_out("co_cb"));
  lv->dest_me();
  return tr;
}
mixed *fin() { mixed *r = tr; tr = ({}); return r; }
