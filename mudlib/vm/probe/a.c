inherit "/probe/b";
int av = 1; string aname() { return "a" + av + bname(); }
void create() { av = 10; }
