int verb(string arg) { "/probe/p"->note("verb:" + query_verb() + ":" + arg + ":" + (this_player() == this_object())); return 1; }
void create() { enable_commands(); add_action("verb", "pv"); }
int cmd(string s) { return command(s); }
void catch_tell(string s) { }
void dest_me() { destruct(this_object()); }
