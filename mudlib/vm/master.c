// verification master for the vm-err checks (C04/C05/C06): base master + one-shot hooks that call back
// into the object under test from inside master applies made by efuns.
mapping pol = ([]);
mixed *errors = ({});
string last_error = "";
mapping hook = ([]);
int nfired;

void set_policy(string k, mixed v) { pol[k] = v; }
string query_last_error() { string e = last_error; last_error = ""; return e; }
mixed *query_errors() { return errors; }
void clear_errors() { errors = ({}); last_error = ""; }
int query_nerrors() { return sizeof(errors); }
string query_error_text(int i) { return errors[i][0]; }
int query_error_caught(int i) { return errors[i][1]; }

void set_hook(string k, object ob, string fn) { hook[k] = ({ ob, fn }); }
void clear_hooks() { hook = ([]); }
private void fire(string k) {
  mixed *h = hook[k];
  // policy "burn" = name of a master apply: that apply spends whatever is left of the evaluation budget (and more)
  if (pol["burn"] == k) { int i; for (i = 0; i < 100000000; i++) ; }
  if (h) { map_delete(hook, k); nfired++; if (h[0]) call_other(h[0], h[1]); }
}

int api_ok(mixed a) { mixed t = ({ a }); string s = "m" + sizeof(t); return sizeof(t) + strlen(s); }
mixed error_handler(mapping m, int caught) {
  // policy "eh_catch": a master whose error handler itself uses catch (one that catches an error, one that does not)
  // policy "eh_objname": the handler formats an object with "%O", which makes the driver safe_apply() the master's object_name()
  if (pol["eh_objname"]) { string t = sprintf("%O", this_object()); if (!t) last_error = "eh_objname broken"; }
  // policy "eh_catch_ok": the handler evaluates a catch that catches nothing
  if (pol["eh_catch_ok"]) { mixed e0 = catch(sizeof(m)); if (e0) last_error = "eh_catch_ok broken"; }
  if (pol["eh_catch"]) { mixed e1, e2; e1 = catch(error("inner\n")); e2 = catch(sizeof(m)); if (!e1 || e2) last_error = "eh_catch broken"; }
  if (!caught) last_error = m["error"];
  errors += ({ ({ m["error"], caught }) });
  return 0;
}

object connect(int port) { return 0; }
string creator_file(string file) { fire("creator_file"); return "Root"; }
string get_root_uid() { return "Root"; }
string get_bb_uid() { return "BB"; }
int valid_seteuid(object ob, string newuid) { fire("valid_seteuid"); return 1; }
mixed valid_read(string path, mixed caller, string fn) { fire("valid_read"); return 1; }
mixed valid_write(string path, mixed caller, string fn) { fire("valid_write"); return 1; }
int valid_object(object ob) { fire("valid_object"); return 1; }
int valid_bind(object a, object b, object c) { fire("valid_bind"); return 1; }
int valid_hide(object ob) { return 1; }
int valid_override(string file, string name, string mainfile) { fire("valid_override"); return 1; }
string object_name(object ob) { fire("object_name"); return "OBN"; }
int valid_save_binary(string file) { return 0; }
int valid_socket(object ob, string fn, mixed *info) { return 0; }
int valid_link(string a, string b) { return 1; }
string get_save_file_name(string f) { return f + ".edsave"; }
string make_path_absolute(string f) { return f; }
