// target of the direct driver-API scenarios (C05 part "api")
mixed keep = ({ "api" });
void create() { seteuid(getuid()); }
int ok(mixed a) { mixed t = ({ a, keep }); string s = "x" + sizeof(t); return sizeof(t) + strlen(s); }
function getfp() { return (: ok :); }
function getfn() { return (: ok($1) + sizeof(keep) :); }
void dest() { destruct(this_object()); }
