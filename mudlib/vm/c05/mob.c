// living object with verbs
object o; string fn;
int verb_s(string arg);
int verb_f(string arg, mixed carry);
void create() { enable_commands(); add_action("verb_s", "vs"); add_action((: verb_f :), "vf", 0, ({ "carry" })); }
void arm(object a, string f) { o = a; fn = f; }
private mixed fire() { object x = o; mixed t = ({ "mob" }); if (!x) return 0; o = 0; return call_other(x, fn); }
void go(object d) { move_object(d); }
int cmd(string s) { mixed t = ({ "cmd", s }); return command(s) + sizeof(t); }
int verb_s(string arg) { fire(); return 1; }
int verb_f(string arg, mixed carry) { fire(); return 1; }
void init() { }
void catch_tell(string s) { }
