void dest() { mixed t = ({ "room" }); destruct(this_object()); }
