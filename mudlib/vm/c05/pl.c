// the command giver at the driver's entry (C05 pass --giver=1): a living that the failing evaluation destructs
void create() { enable_commands(); }
void catch_tell(string s) { }
void init() { }
