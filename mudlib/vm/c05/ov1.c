string x() { return efun::file_name(this_object()); }
