int x( { return 1 }
