mixed keep = ({ "lg" });
mixed g = "/c05/reg"->fire();
