// first inherit of every shape object: gives the second inherit non-zero function/variable index offsets
int padv1 = 11; string padv2 = "pad";
int padf1() { return padv1; }
string padf2() { return padv2; }
