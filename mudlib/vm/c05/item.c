// fires its one-shot hook from init() / move_or_destruct() / id() / catch_tell()
object o; string fn; string mode;
void arm(object a, string f, string m) { o = a; fn = f; mode = m; }
private mixed fire(string m) {
  object x = o; mixed t = ({ "item", m });
  if (!x || m != mode) return 0;
  o = 0;
  return call_other(x, fn);
}
void go(object d) { move_object(d); }
void init() { fire("init"); }
int move_or_destruct(object to) { fire("mod"); return 0; }
int id(string s) { fire("id"); return s == "zz"; }
void catch_tell(string s) { fire("tell"); }
void listen() { enable_commands(); }
