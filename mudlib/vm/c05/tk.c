// object whose call_out / reset() / clean_up() callback raises (or gets a fault injected) in a tick in which other objects' heart beats ran
mixed keep = ({ "tk" }); int fired; int mode;
void create() { seteuid(getuid()); }
int work(mixed a) { mixed t = ({ a, keep }); string s = "w" + sizeof(t); fired++; if (mode) error("tick callback fails\n"); return strlen(s); }
void cb(mixed a) { work(a); }
void arm(int kind, int fail) {
  mode = fail;
  if (kind == 0) call_out("cb", 1, ({ "arg" }));
  else if (kind == 1) call_out((: cb :), 1, ({ "arg" }));
}
void reset() { work("reset"); }
int clean_up(int inh) { work("clean_up"); return 1; }
int query_fired() { return fired; }
