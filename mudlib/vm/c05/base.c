// second inherit of every shape object: inhN() is reached by ::inhN() and calls the virtual gN()
int g1(); int g2(); int g3(); int g4();
int bvar = 7; mixed bkeep = ({ "base" });
int inh1() { mixed t = ({ "b1", bkeep }); return sizeof(({ t, g1() })) + bvar; }
int inh2() { mixed t = ({ "b2", bkeep }); return sizeof(({ t, g2() })) + bvar; }
int inh3() { mixed t = ({ "b3", bkeep }); return sizeof(({ t, g3() })) + bvar; }
int inh4() { mixed t = ({ "b4", bkeep }); return sizeof(({ t, g4() })) + bvar; }
