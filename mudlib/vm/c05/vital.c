// C05 part "vital": destruct of the master / simul_efun object while its reload is made to fail
void create() { seteuid(getuid()); }
object target(int which) { return which ? find_object("/simul_efun") : master(); }
mixed kill_c(int which, int noeuid) { mixed t = ({ "vital" }); mixed e; if (noeuid) seteuid(0); e = catch(destruct(target(which))); return ({ t, e }); }
mixed kill_u(int which, int noeuid) { mixed t = ({ "vital" }); if (noeuid) seteuid(0); destruct(target(which)); return ({ t, 0 }); }
void repair() { seteuid(getuid()); }
// after the file is repaired: names are intact and the master can be replaced
mixed *check() {
  object m = master(), se = find_object("/simul_efun"); mixed e; mixed *r;
  r = ({ file_name(m), find_object("/master") == m, se ? file_name(se) : 0, sefun_add(1, 2) });
  e = catch(destruct(m));
  r += ({ e, file_name(master()), master() != m, find_object("/master") == master() });
  return r;
}
