mixed keep = ({ "ld" });
void create() { mixed t = ({ "ldc", keep }); "/c05/reg"->fire(); }
