mixed keep = ({ "cl" });
void create(object o, string fn) { mixed t = ({ "clc", keep }); if (o) call_other(o, fn); }
