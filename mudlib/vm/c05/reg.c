// one-shot registry used by objects whose create()/initializer takes no argument
object o; string fn;
void arm(object a, string f) { o = a; fn = f; }
void clear() { o = 0; fn = 0; }
mixed fire() { object x = o; string f = fn; mixed t = ({ "reg" }); if (!x) return 0; o = 0; fn = 0; return call_other(x, f); }
