// another object: relay(o, fn) calls back
int cnt;
mixed relay(object o, string fn) { mixed t = ({ "oth", o }); cnt++; return sizeof(t) + call_other(o, fn); }
