// heart-beat object of the C05 part "tick"
int beats;
void create() { seteuid(getuid()); set_heart_beat(1); }
void heart_beat() { beats++; }
int query_beats() { return beats; }
int query_hb() { return query_heart_beat(this_object()); }
