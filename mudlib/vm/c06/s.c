// C06 sharing scenarios: one value of kind vk is held by r holders of kind hk, which are released in order ord
// (0 ascending, 1 descending, 2 all at once by dropping / destructing the holder container)
class cl { mixed a; int b; }
mixed gkeep;
void create() { seteuid(getuid()); enable_commands(); }
void cbf(mixed v) { }
int cbv(string arg, mixed v) { return 1; }
mixed mk(string vk) {
  switch (vk) {
    case "array": return ({ 1, "two", ({ 3 }) });
    case "mapping": return ([ "k" : ({ 1 }) ]);
    case "buffer": return allocate_buffer(8);
    case "class": { class cl c; c = new(class cl); c->a = ({ 1 }); return c; }
    case "funptr": return (: cbf, ({ "bound" }) :);
    case "string": return "str" + sizeof(vk) + "/" + vk;
    case "object": return new("/c06/v");
  }
  return 0;
}
int hold_local(mixed v, int r) { mixed mine = v; if (r > 1) return hold_local(v, r - 1) + 1; return sizeof(({ mine })); }
int run(string vk, int r, string hk, int ord) {
  mixed v = mk(vk);
  mixed h; int i; mixed *hs;
  switch (hk) {
    case "array":
      h = allocate(r);
      for (i = 0; i < r; i++) h[i] = v;
      if (ord == 0) for (i = 0; i < r; i++) h[i] = 0;
      else if (ord == 1) for (i = r - 1; i >= 0; i--) h[i] = 0;
      h = 0;
      break;
    case "mapping":
      h = allocate_mapping(r);
      for (i = 0; i < r; i++) h[i] = v;
      if (ord == 0) for (i = 0; i < r; i++) map_delete(h, i);
      else if (ord == 1) for (i = r - 1; i >= 0; i--) map_delete(h, i);
      h = 0;
      break;
    case "locals":
      hold_local(v, r);
      break;
    case "globals":
      hs = allocate(r);
      for (i = 0; i < r; i++) { hs[i] = new("/c06/g"); hs[i]->set(v); }
      if (ord == 0) for (i = 0; i < r; i++) hs[i]->set(0);
      else if (ord == 1) for (i = r - 1; i >= 0; i--) hs[i]->set(0);
      for (i = 0; i < r; i++) hs[i]->dest();
      break;
    case "funptr_args":
      hs = allocate(r);
      for (i = 0; i < r; i++) hs[i] = (: cbf, v :);
      if (ord == 0) for (i = 0; i < r; i++) hs[i] = 0;
      else if (ord == 1) for (i = r - 1; i >= 0; i--) hs[i] = 0;
      hs = 0;
      break;
    case "call_out":
      hs = allocate(r);
      for (i = 0; i < r; i++) hs[i] = call_out("cbf", 20, v);
      if (ord == 0) for (i = 0; i < r; i++) remove_call_out(hs[i]);
      else if (ord == 1) for (i = r - 1; i >= 0; i--) remove_call_out(hs[i]);
      // ord 2: they fire (the harness advances the clock during clean-up)
      break;
    case "add_action":
      for (i = 0; i < r; i++) add_action("cbv", "v" + i, 0, v);
      if (ord == 0) for (i = 0; i < r; i++) remove_action("cbv", "v" + i);
      else if (ord == 1) for (i = r - 1; i >= 0; i--) remove_action("cbv", "v" + i);
      // ord 2: released when this object is destructed
      break;
  }
  if (vk == "object" && v) v->dest();
  return r;
}
// r clones of one blueprint (program reference count), destructed in order ord
int clones(int r, int ord) {
  object *c = allocate(r); int i;
  for (i = 0; i < r; i++) c[i] = new("/c06/v");
  if (ord == 0) for (i = 0; i < r; i++) c[i]->dest();
  else for (i = r - 1; i >= 0; i--) c[i]->dest();
  return r;
}
// cyclic containers: not collected by a reference-counting VM (by design); only memory safety is checked
int cyclic(int kind) {
  mixed a = ({ 0, 0 }); mapping m = ([]);
  if (kind == 0) a[0] = a;
  else if (kind == 1) { m["self"] = m; }
  else { a[1] = m; m["a"] = a; }
  return 1;
}
// callbacks that outlive their creator
mixed *fs;
int outlive(int kind) {
  object x = new("/c06/x"); mixed v = mk("array"); mixed e;
  if (kind == 0) { fs = x->arm(v); x->dest(); }
  else if (kind == 1) { fs = x->arm(v); x->dest(); e = catch(evaluate(fs[0])); e = catch(evaluate(fs[1])); e = catch(evaluate(fs[2], 1)); fs = 0; }
  else if (kind == 2) { x->arm_actions(v); x->dest(); command("xv 1"); command("xf 2"); }
  else { fs = x->arm(v); gkeep = fs; fs = 0; x->dest(); gkeep = 0; }
  return kind;
}
void drop() { fs = 0; gkeep = 0; }
