// C06 sharing scenarios: one value of kind vk is held by r holders of kind hk, which are released in order ord
// (0 ascending, 1 descending, 2 all at once by dropping / destructing the holder container)
class cl { mixed a; int b; }
mixed gkeep;
void create() { seteuid(getuid()); enable_commands(); }
void cbf(mixed v) { }
int cbv(string arg, mixed v) { return 1; }
mixed mk(string vk) {
  switch (vk) {
    case "array": return ({ 1, "two", ({ 3 }) });
    case "mapping": return ([ "k" : ({ 1 }) ]);
    case "buffer": return allocate_buffer(8);
    case "class": { class cl c; c = new(class cl); c->a = ({ 1 }); return c; }
    case "funptr": return (: cbf, ({ "bound" }) :);
    case "string": return "str" + sizeof(vk) + "/" + vk;
    case "object": return new("/c06/v");
  }
  return 0;
}
int hold_local(mixed v, int r) { mixed mine = v; if (r > 1) return hold_local(v, r - 1) + 1; return sizeof(({ mine })); }
// holder arrays are chunked: an LPC array holds at most 65535 elements (16-bit size field)
#define CH 30000
mixed *mkh(int r) {
  int n = (r + CH - 1) / CH, i; mixed *h = allocate(n);
  for (i = 0; i < n; i++) h[i] = allocate(i < n - 1 ? CH : r - CH * (n - 1));
  return h;
}
#define H(i) h[(i) / CH][(i) % CH]
int run(string vk, int r, string hk, int ord) {
  mixed v = mk(vk);
  mixed *h; mapping m; int i;
  switch (hk) {
    case "array":
      h = mkh(r);
      for (i = 0; i < r; i++) H(i) = v;
      if (ord == 0) for (i = 0; i < r; i++) H(i) = 0;
      else if (ord == 1) for (i = r - 1; i >= 0; i--) H(i) = 0;
      h = 0;
      break;
    case "mapping":
      m = allocate_mapping(r);
      for (i = 0; i < r; i++) m[i] = v;
      if (ord == 0) for (i = 0; i < r; i++) map_delete(m, i);
      else if (ord == 1) for (i = r - 1; i >= 0; i--) map_delete(m, i);
      m = 0;
      break;
    case "locals":
      hold_local(v, r);
      break;
    case "globals":
      h = mkh(r);
      for (i = 0; i < r; i++) { H(i) = new("/c06/g"); H(i)->set(v); }
      if (ord == 0) for (i = 0; i < r; i++) H(i)->set(0);
      else if (ord == 1) for (i = r - 1; i >= 0; i--) H(i)->set(0);
      for (i = 0; i < r; i++) H(i)->dest();
      break;
    case "funptr_args":
      h = mkh(r);
      for (i = 0; i < r; i++) H(i) = (: cbf, v :);
      if (ord == 0) for (i = 0; i < r; i++) H(i) = 0;
      else if (ord == 1) for (i = r - 1; i >= 0; i--) H(i) = 0;
      h = 0;
      break;
    case "call_out":
      h = mkh(r);
      for (i = 0; i < r; i++) H(i) = call_out("cbf", 1 + i % 30, v);
      if (ord == 0) for (i = 0; i < r; i++) remove_call_out(H(i));
      else if (ord == 1) for (i = r - 1; i >= 0; i--) remove_call_out(H(i));
      // ord 2: they fire (the harness advances the clock during clean-up)
      break;
    case "add_action":
      enable_commands();
      for (i = 0; i < r; i++) add_action("cbv", "v" + i, 0, v);
      if (ord == 0) for (i = 0; i < r; i++) remove_action("cbv", "v" + i);
      else if (ord == 1) for (i = r - 1; i >= 0; i--) remove_action("cbv", "v" + i);
      // ord 2: released when this object is destructed
      break;
  }
  if (vk == "object" && v) v->dest();
  return r;
}
// r clones of one blueprint (program reference count), destructed in order ord
int clones(int r, int ord) {
  mixed *h = mkh(r); int i;
  for (i = 0; i < r; i++) H(i) = new("/c06/v");
  if (ord == 0) for (i = 0; i < r; i++) H(i)->dest();
  else for (i = r - 1; i >= 0; i--) H(i)->dest();
  return r;
}
// cyclic containers: not collected by a reference-counting VM (by design); only memory safety is checked
int cyclic(int kind) {
  mixed a = ({ 0, 0 }); mapping m = ([]);
  if (kind == 0) a[0] = a;
  else if (kind == 1) { m["self"] = m; }
  else { a[1] = m; m["a"] = a; }
  return 1;
}
// callbacks that outlive their creator
mixed *fs;
int outlive(int kind) {
  object x = new("/c06/x"); mixed v = mk("array"); mixed e;
  if (kind == 0) { fs = x->arm(v); x->dest(); }
  else if (kind == 1) { fs = x->arm(v); x->dest(); e = catch(evaluate(fs[0])); e = catch(evaluate(fs[1])); e = catch(evaluate(fs[2], 1)); fs = 0; }
  else if (kind == 2) { enable_commands(); x->arm_actions(v); x->dest(); command("xv 1"); command("xf 2"); }
  else { fs = x->arm(v); gkeep = fs; fs = 0; x->dest(); gkeep = 0; }
  return kind;
}
void drop() { fs = 0; gkeep = 0; }
// function pointers that outlive the object (and program) that made them: kind = 4 * transfer + function kind
// transfer: 0 stored in B as is, 1 bind(f, B) then stored in B, 2 argument of a pending call_out of B, 3 add_action carry-over arg of B
object fpb; int fpkind;
mixed fpout(int kind) {
  object a = load_object("/c06/fa"); function f; mixed e;
  fpb = new("/c06/fb"); fpkind = kind;
  f = a->mk(kind % 4);
  if (kind / 4 == 1) e = catch(f = bind(f, fpb));
  switch (kind / 4) { case 0: case 1: fpb->hold(f); break; case 2: fpb->hold_co(f); break; default: fpb->hold_act(f); }
  f = 0;
  a->dest();
  return ({ kind, e });
}
// called by the harness after remove_destructed_objects() and a call_out sweep
mixed fpout2(int kind) { mixed r = fpb->fire(fpkind / 4); fpb->dest(); fpb = 0; return r; }
// aliasing family: a binary operator / op-assign whose two operands are the same container
// kind = 32 * value type + form;  value type 0 array (nested, with strings), 1 mapping, 2 string, 3 buffer
mixed galias;
mixed mkalias(int vt) {
  switch (vt) {
    case 0: return ({ "p", "q" + vt, ({ 1, 2 }), ([ "k" : "v" ]) });
    case 1: return ([ "k" + vt : ({ 1 }), ({ "key" }) : "val", 3 : 4 ]);
    case 2: return "alias" + vt + "/" + sizeof(galias);
    default: return allocate_buffer(6);
  }
}
mixed alias(int kind) {
  int vt = kind / 32, form = kind % 32; mixed x = mkalias(vt), y, e; mixed *a; mapping m;
  switch (form) {
    case 0: e = catch(x += x); break;
    case 1: e = catch(x = x + x); break;
    case 2: y = x; e = catch(x += y); y = 0; break;
    case 3: y = x; e = catch(x = x + y); y = 0; break;
    case 4: a = ({ x }); x = 0; e = catch(a[0] += a[0]); a = 0; break;
    case 5: a = ({ x }); x = 0; e = catch(a[0] = a[0] + a[0]); a = 0; break;
    case 6: m = ([ "slot" : x ]); x = 0; e = catch(m["slot"] += m["slot"]); m = 0; break;
    case 7: galias = x; x = 0; e = catch(galias += galias); galias = 0; break;
    case 8: galias = x; x = 0; e = catch(galias = galias + galias); galias = 0; break;
    case 9: e = catch(x -= x); break;
    case 10: e = catch(x = x - x); break;
    case 11: e = catch(x &= x); break;
    case 12: e = catch(x = x & x); break;
    case 13: e = catch(x |= x); break;
    case 14: e = catch(x = x | x); break;
    case 15: e = catch(x *= x); break;
    case 16: e = catch(x = x * x); break;
    case 17: e = catch(x += x); e = catch(x += x); e = catch(x += x); break;
    case 18: a = ({ x, x }); x = 0; e = catch(a[0] += a[1]); a = 0; break;
    case 19: y = x; e = catch(x += x); y = 0; break;
    case 20: e = catch(x = ({ x }) + ({ x })); break;
    case 21: e = catch(x[0..0] = x); break;
    case 22: y = ({ x, x, x }); x = 0; e = catch(y[0] += y[1] + y[2]); y = 0; break;
  }
  return ({ kind, e });
}
// call-cache family: call_other to functions that exist but are not visible (static / private / protected / inherited static /
// prototype only / undefined), on a cold cache and again on the filled cache, followed by a permitted call of the same name
mixed refused(int kind) {
  object t = load_object("/c06/ct"); mixed e, r1, r2, r3;
  string *names = ({ "secret_fn", "hidden_fn", "prot_fn", "inherited_static_fn", "inherited_private_fn", "proto_only_fn", "no_such_fn", "public_fn" });
  string fn = names[kind % 8];
  e = catch(r1 = call_other(t, fn, ({ "arg" })));
  e = catch(r2 = call_other(t, fn, ({ "arg" })));
  if (kind >= 8) { e = catch(r3 = t->self_calls()); e = catch(r2 = call_other(t, fn, ({ "arg" }))); }
  if (kind >= 16) { e = catch(r3 = call_other(({ t, t }), fn, 1)); e = catch(r3 = call_other(t, ({ fn, 1, 2 }))); }
  t->dest();
  return ({ kind, r1, r2 });
}
// zombie family: an object destructs itself and keeps calling efuns that capture arguments / register state
int relay_z(mixed a, mixed b, mixed c, mixed d) { return sizeof(a); }
mixed zombie(int kind) {
  object z = new("/c06/z");
  enable_commands();
  return z->go(kind, this_object());
}
// temporaries family (generated by gen/c06_temp_gen.py): the container operand of an index / range / member operation is a TEMPORARY
// (the value stack holds its only reference) and the value looked up is reference-counted and held only by that temporary.
// kind = 1024 * case + value type; the result is used (sizeof / index), kept in a global, used again and only then dropped
mixed tv(int vt) {
  switch (vt) {
    case 0: return ({ "v" + vt, ({ vt }) });
    case 1: return ([ "in" + vt : ({ vt }) ]);
    case 2: return "str" + vt + "/" + sizeof(gkeep);
    case 3: return allocate_buffer(5);
    case 4: return (: cbf, ({ "bound" + vt }) :);
    case 5: { class cl c; c = new(class cl); c->a = ({ "in-class" + vt }); return c; }
  }
  return 0;
}
mapping tm(int vt) { return ([ "k" : tv(vt), "o" : 1, ({ "ak" }) : tv(vt) ]); }
mixed *ta(int vt) { return ({ tv(vt), "o" + vt, tv(vt) }); }
string ts(int vt) { return "tmp" + vt + "/" + sizeof(gkeep); }
mixed tb(int vt) { return allocate_buffer(4 + vt); }
class cl tc(int vt) { class cl c; c = new(class cl); c->a = tv(vt); c->b = vt; return c; }
mixed each_m(mapping m) { mixed k, v, r; foreach (k, v in m) if (k == "k") r = v; return r; }
mixed each_a(mixed *a) { mixed v, r; foreach (v in a) if (!r) r = v; return r; }
mapping tdel(mapping m) { map_delete(m, "k"); return m; }
int use(mixed r) {
  if (arrayp(r)) return sizeof(r) + (sizeof(r) && arrayp(r[0]) ? sizeof(r[0]) : 0);
  if (mapp(r)) return sizeof(keys(r)) + sizeof(values(r));
  if (stringp(r)) return strlen(r + "!");
  if (bufferp(r)) return sizeof(r);
  if (functionp(r)) return 1;
  if (classp(r)) return 2;
  return 0;
}
mixed gtemp;
mixed temp(int kind) {
  int c = kind / 1024, vt = kind % 1024; mixed r, e; int u;
  switch (c) {
    case 0: e = catch(r = ([ "k" : tv(vt), "o" : 1, ({ "ak" }) : tv(vt) ])["k"]); break;
    case 1: e = catch(r = ([ "k" : tv(vt), "o" : 1, ({ "ak" }) : tv(vt) ])["k"][0]); break;
    case 2: e = catch(r = ([ "k" : tv(vt), "o" : 1, ({ "ak" }) : tv(vt) ])["nokey"]); break;
    case 3: e = catch(r = ([ "k" : tv(vt), "o" : 1, ({ "ak" }) : tv(vt) ])[({ "zz" })]); break;
    case 4: e = catch(r = sizeof(([ "k" : tv(vt), "o" : 1, ({ "ak" }) : tv(vt) ]))); break;
    case 5: e = catch(r = keys(([ "k" : tv(vt), "o" : 1, ({ "ak" }) : tv(vt) ]))[0]); break;
    case 6: e = catch(r = values(([ "k" : tv(vt), "o" : 1, ({ "ak" }) : tv(vt) ]))[0]); break;
    case 7: e = catch(r = each_m(([ "k" : tv(vt), "o" : 1, ({ "ak" }) : tv(vt) ]))); break;
    case 8: e = catch(r = ({ ([ "k" : tv(vt), "o" : 1, ({ "ak" }) : tv(vt) ])["k"], ([ "k" : tv(vt), "o" : 1, ({ "ak" }) : tv(vt) ])["o"] })); break;
    case 9: e = catch(r = undefinedp(([ "k" : tv(vt), "o" : 1, ({ "ak" }) : tv(vt) ])["k"])); break;
    case 10: e = catch(r = sizeof(tdel(([ "k" : tv(vt), "o" : 1, ({ "ak" }) : tv(vt) ])))); break;
    case 11: e = catch(r = tm(vt)["k"]); break;
    case 12: e = catch(r = tm(vt)["k"][0]); break;
    case 13: e = catch(r = tm(vt)["nokey"]); break;
    case 14: e = catch(r = tm(vt)[({ "zz" })]); break;
    case 15: e = catch(r = sizeof(tm(vt))); break;
    case 16: e = catch(r = keys(tm(vt))[0]); break;
    case 17: e = catch(r = values(tm(vt))[0]); break;
    case 18: e = catch(r = each_m(tm(vt))); break;
    case 19: e = catch(r = ({ tm(vt)["k"], tm(vt)["o"] })); break;
    case 20: e = catch(r = undefinedp(tm(vt)["k"])); break;
    case 21: e = catch(r = sizeof(tdel(tm(vt)))); break;
    case 22: e = catch(r = (tm(vt) + ([ "z" : 1 ]))["k"]); break;
    case 23: e = catch(r = (tm(vt) + ([ "z" : 1 ]))["k"][0]); break;
    case 24: e = catch(r = (tm(vt) + ([ "z" : 1 ]))["nokey"]); break;
    case 25: e = catch(r = (tm(vt) + ([ "z" : 1 ]))[({ "zz" })]); break;
    case 26: e = catch(r = sizeof((tm(vt) + ([ "z" : 1 ])))); break;
    case 27: e = catch(r = keys((tm(vt) + ([ "z" : 1 ])))[0]); break;
    case 28: e = catch(r = values((tm(vt) + ([ "z" : 1 ])))[0]); break;
    case 29: e = catch(r = each_m((tm(vt) + ([ "z" : 1 ])))); break;
    case 30: e = catch(r = ({ (tm(vt) + ([ "z" : 1 ]))["k"], (tm(vt) + ([ "z" : 1 ]))["o"] })); break;
    case 31: e = catch(r = undefinedp((tm(vt) + ([ "z" : 1 ]))["k"])); break;
    case 32: e = catch(r = sizeof(tdel((tm(vt) + ([ "z" : 1 ]))))); break;
    case 33: e = catch(r = this_object()->tm(vt)["k"]); break;
    case 34: e = catch(r = this_object()->tm(vt)["k"][0]); break;
    case 35: e = catch(r = this_object()->tm(vt)["nokey"]); break;
    case 36: e = catch(r = this_object()->tm(vt)[({ "zz" })]); break;
    case 37: e = catch(r = sizeof(this_object()->tm(vt))); break;
    case 38: e = catch(r = keys(this_object()->tm(vt))[0]); break;
    case 39: e = catch(r = values(this_object()->tm(vt))[0]); break;
    case 40: e = catch(r = each_m(this_object()->tm(vt))); break;
    case 41: e = catch(r = ({ this_object()->tm(vt)["k"], this_object()->tm(vt)["o"] })); break;
    case 42: e = catch(r = undefinedp(this_object()->tm(vt)["k"])); break;
    case 43: e = catch(r = sizeof(tdel(this_object()->tm(vt)))); break;
    case 44: e = catch(r = ({ tv(vt), "o" + vt, tv(vt) })[0]); break;
    case 45: e = catch(r = ({ tv(vt), "o" + vt, tv(vt) })[2]); break;
    case 46: e = catch(r = ({ tv(vt), "o" + vt, tv(vt) })[<1]); break;
    case 47: e = catch(r = ({ tv(vt), "o" + vt, tv(vt) })[0..0]); break;
    case 48: e = catch(r = ({ tv(vt), "o" + vt, tv(vt) })[1..]); break;
    case 49: e = catch(r = ({ tv(vt), "o" + vt, tv(vt) })[<2..<1]); break;
    case 50: e = catch(r = ({ tv(vt), "o" + vt, tv(vt) })[0..1][0]); break;
    case 51: e = catch(r = ({ tv(vt), "o" + vt, tv(vt) })[0][0]); break;
    case 52: e = catch(r = member_array("nope", ({ tv(vt), "o" + vt, tv(vt) }))); break;
    case 53: e = catch(r = sizeof(({ tv(vt), "o" + vt, tv(vt) }))); break;
    case 54: e = catch(r = each_a(({ tv(vt), "o" + vt, tv(vt) }))); break;
    case 55: e = catch(r = ({ ({ tv(vt), "o" + vt, tv(vt) })[0], ({ tv(vt), "o" + vt, tv(vt) })[2] })); break;
    case 56: e = catch(r = ta(vt)[0]); break;
    case 57: e = catch(r = ta(vt)[2]); break;
    case 58: e = catch(r = ta(vt)[<1]); break;
    case 59: e = catch(r = ta(vt)[0..0]); break;
    case 60: e = catch(r = ta(vt)[1..]); break;
    case 61: e = catch(r = ta(vt)[<2..<1]); break;
    case 62: e = catch(r = ta(vt)[0..1][0]); break;
    case 63: e = catch(r = ta(vt)[0][0]); break;
    case 64: e = catch(r = member_array("nope", ta(vt))); break;
    case 65: e = catch(r = sizeof(ta(vt))); break;
    case 66: e = catch(r = each_a(ta(vt))); break;
    case 67: e = catch(r = ({ ta(vt)[0], ta(vt)[2] })); break;
    case 68: e = catch(r = (ta(vt) + ({ tv(vt) }))[0]); break;
    case 69: e = catch(r = (ta(vt) + ({ tv(vt) }))[2]); break;
    case 70: e = catch(r = (ta(vt) + ({ tv(vt) }))[<1]); break;
    case 71: e = catch(r = (ta(vt) + ({ tv(vt) }))[0..0]); break;
    case 72: e = catch(r = (ta(vt) + ({ tv(vt) }))[1..]); break;
    case 73: e = catch(r = (ta(vt) + ({ tv(vt) }))[<2..<1]); break;
    case 74: e = catch(r = (ta(vt) + ({ tv(vt) }))[0..1][0]); break;
    case 75: e = catch(r = (ta(vt) + ({ tv(vt) }))[0][0]); break;
    case 76: e = catch(r = member_array("nope", (ta(vt) + ({ tv(vt) })))); break;
    case 77: e = catch(r = sizeof((ta(vt) + ({ tv(vt) })))); break;
    case 78: e = catch(r = each_a((ta(vt) + ({ tv(vt) })))); break;
    case 79: e = catch(r = ({ (ta(vt) + ({ tv(vt) }))[0], (ta(vt) + ({ tv(vt) }))[2] })); break;
    case 80: e = catch(r = this_object()->ta(vt)[0]); break;
    case 81: e = catch(r = this_object()->ta(vt)[2]); break;
    case 82: e = catch(r = this_object()->ta(vt)[<1]); break;
    case 83: e = catch(r = this_object()->ta(vt)[0..0]); break;
    case 84: e = catch(r = this_object()->ta(vt)[1..]); break;
    case 85: e = catch(r = this_object()->ta(vt)[<2..<1]); break;
    case 86: e = catch(r = this_object()->ta(vt)[0..1][0]); break;
    case 87: e = catch(r = this_object()->ta(vt)[0][0]); break;
    case 88: e = catch(r = member_array("nope", this_object()->ta(vt))); break;
    case 89: e = catch(r = sizeof(this_object()->ta(vt))); break;
    case 90: e = catch(r = each_a(this_object()->ta(vt))); break;
    case 91: e = catch(r = ({ this_object()->ta(vt)[0], this_object()->ta(vt)[2] })); break;
    case 92: e = catch(r = ("lit" + vt)[0]); break;
    case 93: e = catch(r = ("lit" + vt)[<1]); break;
    case 94: e = catch(r = ("lit" + vt)[0..1]); break;
    case 95: e = catch(r = ("lit" + vt)[1..]); break;
    case 96: e = catch(r = ("lit" + vt)[<2..<1]); break;
    case 97: e = catch(r = strlen(("lit" + vt))); break;
    case 98: e = catch(r = ts(vt)[0]); break;
    case 99: e = catch(r = ts(vt)[<1]); break;
    case 100: e = catch(r = ts(vt)[0..1]); break;
    case 101: e = catch(r = ts(vt)[1..]); break;
    case 102: e = catch(r = ts(vt)[<2..<1]); break;
    case 103: e = catch(r = strlen(ts(vt))); break;
    case 104: e = catch(r = (ts(vt) + "z")[0]); break;
    case 105: e = catch(r = (ts(vt) + "z")[<1]); break;
    case 106: e = catch(r = (ts(vt) + "z")[0..1]); break;
    case 107: e = catch(r = (ts(vt) + "z")[1..]); break;
    case 108: e = catch(r = (ts(vt) + "z")[<2..<1]); break;
    case 109: e = catch(r = strlen((ts(vt) + "z"))); break;
    case 110: e = catch(r = this_object()->ts(vt)[0]); break;
    case 111: e = catch(r = this_object()->ts(vt)[<1]); break;
    case 112: e = catch(r = this_object()->ts(vt)[0..1]); break;
    case 113: e = catch(r = this_object()->ts(vt)[1..]); break;
    case 114: e = catch(r = this_object()->ts(vt)[<2..<1]); break;
    case 115: e = catch(r = strlen(this_object()->ts(vt))); break;
    case 116: e = catch(r = allocate_buffer(4 + vt)[0]); break;
    case 117: e = catch(r = allocate_buffer(4 + vt)[<1]); break;
    case 118: e = catch(r = allocate_buffer(4 + vt)[0..1]); break;
    case 119: e = catch(r = allocate_buffer(4 + vt)[1..]); break;
    case 120: e = catch(r = sizeof(allocate_buffer(4 + vt))); break;
    case 121: e = catch(r = tb(vt)[0]); break;
    case 122: e = catch(r = tb(vt)[<1]); break;
    case 123: e = catch(r = tb(vt)[0..1]); break;
    case 124: e = catch(r = tb(vt)[1..]); break;
    case 125: e = catch(r = sizeof(tb(vt))); break;
    case 126: e = catch(r = (tb(vt) + tb(vt))[0]); break;
    case 127: e = catch(r = (tb(vt) + tb(vt))[<1]); break;
    case 128: e = catch(r = (tb(vt) + tb(vt))[0..1]); break;
    case 129: e = catch(r = (tb(vt) + tb(vt))[1..]); break;
    case 130: e = catch(r = sizeof((tb(vt) + tb(vt)))); break;
    case 131: e = catch(r = this_object()->tb(vt)[0]); break;
    case 132: e = catch(r = this_object()->tb(vt)[<1]); break;
    case 133: e = catch(r = this_object()->tb(vt)[0..1]); break;
    case 134: e = catch(r = this_object()->tb(vt)[1..]); break;
    case 135: e = catch(r = sizeof(this_object()->tb(vt))); break;
    case 136: e = catch(r = new(class cl, a : tv(vt), b : vt)->a); break;
    case 137: e = catch(r = new(class cl, a : tv(vt), b : vt)->a[0]); break;
    case 138: e = catch(r = new(class cl, a : tv(vt), b : vt)->b); break;
    case 139: e = catch(r = tc(vt)->a); break;
    case 140: e = catch(r = tc(vt)->a[0]); break;
    case 141: e = catch(r = tc(vt)->b); break;
    case 142: e = catch(r = ((class cl) this_object()->tc(vt))->a); break;
    case 143: e = catch(r = ((class cl) this_object()->tc(vt))->a[0]); break;
    case 144: e = catch(r = ((class cl) this_object()->tc(vt))->b); break;
  }
  u = use(r);
  gtemp = r; r = 0;
  u += use(gtemp);
  gtemp = 0;
  return ({ kind, e, u });
}
