// C06 sharing scenarios: one value of kind vk is held by r holders of kind hk, which are released in order ord
// (0 ascending, 1 descending, 2 all at once by dropping / destructing the holder container)
class cl { mixed a; int b; }
mixed gkeep;
void create() { seteuid(getuid()); enable_commands(); }
void cbf(mixed v) { }
int cbv(string arg, mixed v) { return 1; }
mixed mk(string vk) {
  switch (vk) {
    case "array": return ({ 1, "two", ({ 3 }) });
    case "mapping": return ([ "k" : ({ 1 }) ]);
    case "buffer": return allocate_buffer(8);
    case "class": { class cl c; c = new(class cl); c->a = ({ 1 }); return c; }
    case "funptr": return (: cbf, ({ "bound" }) :);
    case "string": return "str" + sizeof(vk) + "/" + vk;
    case "object": return new("/c06/v");
  }
  return 0;
}
int hold_local(mixed v, int r) { mixed mine = v; if (r > 1) return hold_local(v, r - 1) + 1; return sizeof(({ mine })); }
// holder arrays are chunked: an LPC array holds at most 65535 elements (16-bit size field)
#define CH 30000
mixed *mkh(int r) {
  int n = (r + CH - 1) / CH, i; mixed *h = allocate(n);
  for (i = 0; i < n; i++) h[i] = allocate(i < n - 1 ? CH : r - CH * (n - 1));
  return h;
}
#define H(i) h[(i) / CH][(i) % CH]
int run(string vk, int r, string hk, int ord) {
  mixed v = mk(vk);
  mixed *h; mapping m; int i;
  switch (hk) {
    case "array":
      h = mkh(r);
      for (i = 0; i < r; i++) H(i) = v;
      if (ord == 0) for (i = 0; i < r; i++) H(i) = 0;
      else if (ord == 1) for (i = r - 1; i >= 0; i--) H(i) = 0;
      h = 0;
      break;
    case "mapping":
      m = allocate_mapping(r);
      for (i = 0; i < r; i++) m[i] = v;
      if (ord == 0) for (i = 0; i < r; i++) map_delete(m, i);
      else if (ord == 1) for (i = r - 1; i >= 0; i--) map_delete(m, i);
      m = 0;
      break;
    case "locals":
      hold_local(v, r);
      break;
    case "globals":
      h = mkh(r);
      for (i = 0; i < r; i++) { H(i) = new("/c06/g"); H(i)->set(v); }
      if (ord == 0) for (i = 0; i < r; i++) H(i)->set(0);
      else if (ord == 1) for (i = r - 1; i >= 0; i--) H(i)->set(0);
      for (i = 0; i < r; i++) H(i)->dest();
      break;
    case "funptr_args":
      h = mkh(r);
      for (i = 0; i < r; i++) H(i) = (: cbf, v :);
      if (ord == 0) for (i = 0; i < r; i++) H(i) = 0;
      else if (ord == 1) for (i = r - 1; i >= 0; i--) H(i) = 0;
      h = 0;
      break;
    case "call_out":
      h = mkh(r);
      for (i = 0; i < r; i++) H(i) = call_out("cbf", 1 + i % 30, v);
      if (ord == 0) for (i = 0; i < r; i++) remove_call_out(H(i));
      else if (ord == 1) for (i = r - 1; i >= 0; i--) remove_call_out(H(i));
      // ord 2: they fire (the harness advances the clock during clean-up)
      break;
    case "add_action":
      enable_commands();
      for (i = 0; i < r; i++) add_action("cbv", "v" + i, 0, v);
      if (ord == 0) for (i = 0; i < r; i++) remove_action("cbv", "v" + i);
      else if (ord == 1) for (i = r - 1; i >= 0; i--) remove_action("cbv", "v" + i);
      // ord 2: released when this object is destructed
      break;
  }
  if (vk == "object" && v) v->dest();
  return r;
}
// r clones of one blueprint (program reference count), destructed in order ord
int clones(int r, int ord) {
  mixed *h = mkh(r); int i;
  for (i = 0; i < r; i++) H(i) = new("/c06/v");
  if (ord == 0) for (i = 0; i < r; i++) H(i)->dest();
  else for (i = r - 1; i >= 0; i--) H(i)->dest();
  return r;
}
// cyclic containers: not collected by a reference-counting VM (by design); only memory safety is checked
int cyclic(int kind) {
  mixed a = ({ 0, 0 }); mapping m = ([]);
  if (kind == 0) a[0] = a;
  else if (kind == 1) { m["self"] = m; }
  else { a[1] = m; m["a"] = a; }
  return 1;
}
// callbacks that outlive their creator
mixed *fs;
int outlive(int kind) {
  object x = new("/c06/x"); mixed v = mk("array"); mixed e;
  if (kind == 0) { fs = x->arm(v); x->dest(); }
  else if (kind == 1) { fs = x->arm(v); x->dest(); e = catch(evaluate(fs[0])); e = catch(evaluate(fs[1])); e = catch(evaluate(fs[2], 1)); fs = 0; }
  else if (kind == 2) { enable_commands(); x->arm_actions(v); x->dest(); command("xv 1"); command("xf 2"); }
  else { fs = x->arm(v); gkeep = fs; fs = 0; x->dest(); gkeep = 0; }
  return kind;
}
void drop() { fs = 0; gkeep = 0; }
// function pointers that outlive the object (and program) that made them: kind = 4 * transfer + function kind
// transfer: 0 stored in B as is, 1 bind(f, B) then stored in B, 2 argument of a pending call_out of B, 3 add_action carry-over arg of B
object fpb; int fpkind;
mixed fpout(int kind) {
  object a = load_object("/c06/fa"); function f; mixed e;
  fpb = new("/c06/fb"); fpkind = kind;
  f = a->mk(kind % 4);
  if (kind / 4 == 1) e = catch(f = bind(f, fpb));
  switch (kind / 4) { case 0: case 1: fpb->hold(f); break; case 2: fpb->hold_co(f); break; default: fpb->hold_act(f); }
  f = 0;
  a->dest();
  return ({ kind, e });
}
// called by the harness after remove_destructed_objects() and a call_out sweep
mixed fpout2(int kind) { mixed r = fpb->fire(fpkind / 4); fpb->dest(); fpb = 0; return r; }
// aliasing family: a binary operator / op-assign whose two operands are the same container
// kind = 32 * value type + form;  value type 0 array (nested, with strings), 1 mapping, 2 string, 3 buffer
mixed galias;
mixed mkalias(int vt) {
  switch (vt) {
    case 0: return ({ "p", "q" + vt, ({ 1, 2 }), ([ "k" : "v" ]) });
    case 1: return ([ "k" + vt : ({ 1 }), ({ "key" }) : "val", 3 : 4 ]);
    case 2: return "alias" + vt + "/" + sizeof(galias);
    default: return allocate_buffer(6);
  }
}
mixed alias(int kind) {
  int vt = kind / 32, form = kind % 32; mixed x = mkalias(vt), y, e; mixed *a; mapping m;
  switch (form) {
    case 0: e = catch(x += x); break;
    case 1: e = catch(x = x + x); break;
    case 2: y = x; e = catch(x += y); y = 0; break;
    case 3: y = x; e = catch(x = x + y); y = 0; break;
    case 4: a = ({ x }); x = 0; e = catch(a[0] += a[0]); a = 0; break;
    case 5: a = ({ x }); x = 0; e = catch(a[0] = a[0] + a[0]); a = 0; break;
    case 6: m = ([ "slot" : x ]); x = 0; e = catch(m["slot"] += m["slot"]); m = 0; break;
    case 7: galias = x; x = 0; e = catch(galias += galias); galias = 0; break;
    case 8: galias = x; x = 0; e = catch(galias = galias + galias); galias = 0; break;
    case 9: e = catch(x -= x); break;
    case 10: e = catch(x = x - x); break;
    case 11: e = catch(x &= x); break;
    case 12: e = catch(x = x & x); break;
    case 13: e = catch(x |= x); break;
    case 14: e = catch(x = x | x); break;
    case 15: e = catch(x *= x); break;
    case 16: e = catch(x = x * x); break;
    case 17: e = catch(x += x); e = catch(x += x); e = catch(x += x); break;
    case 18: a = ({ x, x }); x = 0; e = catch(a[0] += a[1]); a = 0; break;
    case 19: y = x; e = catch(x += x); y = 0; break;
    case 20: e = catch(x = ({ x }) + ({ x })); break;
    case 21: e = catch(x[0..0] = x); break;
    case 22: y = ({ x, x, x }); x = 0; e = catch(y[0] += y[1] + y[2]); y = 0; break;
  }
  return ({ kind, e });
}
// call-cache family: call_other to functions that exist but are not visible (static / private / protected / inherited static /
// prototype only / undefined), on a cold cache and again on the filled cache, followed by a permitted call of the same name
mixed refused(int kind) {
  object t = load_object("/c06/ct"); mixed e, r1, r2, r3;
  string *names = ({ "secret_fn", "hidden_fn", "prot_fn", "inherited_static_fn", "inherited_private_fn", "proto_only_fn", "no_such_fn", "public_fn" });
  string fn = names[kind % 8];
  e = catch(r1 = call_other(t, fn, ({ "arg" })));
  e = catch(r2 = call_other(t, fn, ({ "arg" })));
  if (kind >= 8) { e = catch(r3 = t->self_calls()); e = catch(r2 = call_other(t, fn, ({ "arg" }))); }
  if (kind >= 16) { e = catch(r3 = call_other(({ t, t }), fn, 1)); e = catch(r3 = call_other(t, ({ fn, 1, 2 }))); }
  t->dest();
  return ({ kind, r1, r2 });
}
// zombie family: an object destructs itself and keeps calling efuns that capture arguments / register state
int relay_z(mixed a, mixed b, mixed c, mixed d) { return sizeof(a); }
mixed zombie(int kind) {
  object z = new("/c06/z");
  enable_commands();
  return z->go(kind, this_object());
}
