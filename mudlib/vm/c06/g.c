// holder kind "globals": one global per clone
mixed held;
void set(mixed x) { held = x; }
void dest() { destruct(this_object()); }
