// target of the call-cache family: functions that exist but are not visible to call_other
inherit "/c06/cti";
int calls;
void create() { seteuid(getuid()); }
static int secret_fn(mixed a) { calls++; return 1; }
private int hidden_fn(mixed a) { calls++; return 2; }
protected int prot_fn(mixed a) { calls++; return 3; }
int proto_only_fn(mixed a);
int public_fn(mixed a) { calls++; return 4; }
int self_calls() { return secret_fn(1) + hidden_fn(2) + prot_fn(3) + inherited_static_fn(4); }
void dest() { destruct(this_object()); }
