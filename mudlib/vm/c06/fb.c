// holder of a function pointer made by another object; calls it after the maker is gone
function held; mixed *log = ({});
void create() { seteuid(getuid()); enable_commands(); }
void hold(function f) { held = f; }
void cb(function f) { mixed e, r; e = catch(r = evaluate(f, 1)); log += ({ ({ "co", e, r }) }); }
int act(string s, function f) { mixed e, r; e = catch(r = evaluate(f, 1)); log += ({ ({ "act", e, r }) }); return 1; }
void hold_co(function f) { call_out("cb", 1, f); }
void hold_act(function f) { enable_commands(); add_action("act", "fv", 0, f); }
mixed fire(int tr) {
  mixed e, r;
  if (tr <= 1) { e = catch(r = evaluate(held, 1)); log += ({ ({ "held", e, r }) }); held = 0; }
  else if (tr == 3) { enable_commands(); command("fv 1"); }
  return log;
}
void dest() { destruct(this_object()); }
