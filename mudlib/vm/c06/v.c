// a value of kind "object", also the blueprint of the many-clones scenario
mixed held;
void set(mixed x) { held = x; }
mixed get() { return held; }
void dest() { destruct(this_object()); }
