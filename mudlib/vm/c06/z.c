// "zombie": destructs itself and, still running, calls efuns that capture arguments or register state
void create() { seteuid(getuid()); }
void cbf(mixed a, mixed b, mixed c, mixed d) { }
int cbv(string s, mixed c) { return 1; }
int plain(mixed a, mixed b, mixed c) { return sizeof(a) + sizeof(b) + strlen(c); }
void heart_beat() { }
mixed go(int kind, object near) {
  mixed arr = ({ 1, "two", ({ 3 }) }); mapping m = ([ "k" : ({ 1 }) ]); string str = "zs" + kind + "/" + sizeof(arr);
  object o = new("/c06/v"); mixed e; mixed r;
  destruct(this_object());
  switch (kind) {
    case 0: e = catch(r = call_out("cbf", 2, arr, m, str, o)); break;
    case 1: e = catch(r = call_out((: cbf :), 2, arr, m, str, o)); break;
    case 2: e = catch(add_action("cbv", "zv", 0, arr)); break;
    case 3: e = catch(add_action((: cbv :), "zf", 0, m)); break;
    case 4: e = catch(r = input_to("cbf", 0, arr, m, str)); break;
    case 5: e = catch(r = get_char("cbf", 0, arr, m, str)); break;
    case 6: e = catch(set_heart_beat(1)); break;
    case 7: e = catch(set_living_name("zombie" + kind)); break;
    case 8: e = catch(enable_commands()); break;
    case 9: e = catch(move_object(near)); break;
    case 10: e = catch(r = bind((: file_name :), near)); break;
    case 11: e = catch(r = plain(arr, m, str)); break;
    case 12: e = catch(r = evaluate((: plain, arr, m :), str)); break;
    case 13: e = catch(r = near->relay_z(arr, m, str, o)); break;
    case 14: e = catch(r = filter(arr, (: cbv :), m)); break;
    case 15: e = catch(r = new("/c06/v")); break;
    case 16: e = catch(r = remove_call_out(call_out("cbf", 2, arr))); break;
    case 17: e = catch(notify_fail((: plain, arr, m, str :))); break;
  }
  if (objectp(r)) r->dest();
  if (o) o->dest();
  return ({ kind, e });
}
