// creator that is destructed before its callbacks fire
mixed keep;
void cbx(mixed v) { keep = v; }
mixed *arm(mixed v) {
  function f = (: cbx, v :);
  function g = (: keep :);
  keep = ({ v });
  call_out("cbx", 2, v);
  call_out(f, 3);
  return ({ f, g, (: $1 + sizeof(keep) :) });
}
void arm_actions(mixed v) { add_action("cbx", "xv", 0, v); add_action((: cbx, v :), "xf"); }
void dest() { destruct(this_object()); }
