// creator of function pointers; loaded (not cloned) so that this object is the only user of its program
int gvar = 5;
void create() { seteuid(getuid()); }
int lf(int a) { return a + 2; }
function mk(int ft) {
  switch (ft) {
    case 0: return (: $1 + 1 :);                              // bindable functional
    case 1: return function(int a) { return a + 3; };         // anonymous function
    case 2: return (: lf :);                                  // local function pointer (not bindable)
    case 3: return (: $1 + gvar :);                           // functional that references a global (not bindable)
  }
  return 0;
}
void dest() { destruct(this_object()); }
