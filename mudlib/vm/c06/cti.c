static int inherited_static_fn(mixed a) { return 5; }
private int inherited_private_fn(mixed a) { return 6; }
