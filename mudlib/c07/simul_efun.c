// C07 simul_efun: every generated function reports that its body ran.
// variable 0 is read and reset directly by the harness (no apply, so the apply cache is not touched)
string rlog = "";
void ran(string t) { rlog += t + ";"; }
