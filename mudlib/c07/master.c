// C07 verification master: base policies + a record of every compile error it is handed
mapping pol = ([]);
mixed *errors = ({});
string last_error = "";
string clog = "";

void set_policy(string k, mixed v) { pol[k] = v; }
string query_last_error() { string e = last_error; last_error = ""; return e; }
mixed *query_errors() { return errors; }
void clear_errors() { errors = ({}); last_error = ""; }
string take_clog() { string s = clog; clog = ""; return s; }

mixed error_handler(mapping m, int caught) {
  if (!caught) last_error = m["error"];
  return 0;
}
void log_error(string file, string msg) { clog += msg; }

object connect(int port) { return 0; }
string creator_file(string file) { return "Root"; }
string get_root_uid() { return "Root"; }
string get_bb_uid() { return "BB"; }
int valid_seteuid(object ob, string newuid) { return 1; }
mixed valid_read(string path, mixed caller, string fn) { return 1; }
mixed valid_write(string path, mixed caller, string fn) { return 1; }
int valid_object(object ob) { return 1; }
int valid_bind(object a, object b, object c) { return 1; }
int valid_hide(object ob) { return 1; }
int valid_override(string file, string name) { return 1; }
int valid_save_binary(string file) { return 1; }
int valid_socket(object ob, string fn, mixed *info) { return 0; }
int valid_link(string a, string b) { return 1; }
string get_save_file_name(string f) { return f + ".edsave"; }
string make_path_absolute(string f) { return f; }
