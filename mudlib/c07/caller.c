// C07: "another object" issuing call_others
mixed co_f(object o) { return o->f(); }
mixed co_g(object o) { return o->g(); }
mixed co_z(object o) { return o->zz_absent(); }
// a call_other issued at a chosen call depth (the harness picks n so that the callee's frame is the one that does not fit)
mixed deep_f(int n, object o) { if (n > 0) return deep_f(n - 1, o); return o->f(); }
mixed deep_g(int n, object o) { if (n > 0) return deep_g(n - 1, o); return o->g(); }
// evaluate a function pointer handed over by another object (code running at offset 0 of another object)
mixed ev(function p, int how) { if (!how) return evaluate(p, "e"); return map_array(({ "e" }), p)[0]; }
