// C07: "another object" issuing call_others
mixed co_f(object o) { return o->f(); }
mixed co_g(object o) { return o->g(); }
mixed co_z(object o) { return o->zz_absent(); }
