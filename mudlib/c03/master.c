// C03 verification master: minimal policies + keeps the last runtime error and the compile diagnostics
string last_error = "";
string *cerrs = ({});

string query_last_error() { string e = last_error; last_error = ""; return e; }
mixed error_handler(mapping m, int caught) { if (!caught) last_error = m["error"]; return 0; }
// compile diagnostics (errors and warnings) are handed to the master by smart_log()
void log_error(string file, string msg) { if (sizeof(cerrs) < 8) cerrs += ({ msg }); }
string *take_cerrs() { string *r = cerrs; cerrs = ({}); return r; }

object connect(int port) { return 0; }
string creator_file(string file) { return "Root"; }
string get_root_uid() { return "Root"; }
string get_bb_uid() { return "BB"; }
int valid_seteuid(object ob, string newuid) { return 1; }
mixed valid_read(string path, mixed caller, string fn) { return 1; }
mixed valid_write(string path, mixed caller, string fn) { return 1; }
int valid_object(object ob) { return 1; }
int valid_bind(object a, object b, object c) { return 1; }
int valid_override(string file, string name) { return 1; }
int valid_save_binary(string file) { return 0; }
