// C03 verification simul_efun
mixed sefun_id(mixed x) { return x; }
