// C03: inherited program used by the "inherited call" spellings
int bg;
mixed *ba;
mixed inh_id(mixed x) { return x; }
mixed inh_add(mixed a, mixed b) { return a + b; }
mixed inh_sub(mixed a, mixed b) { return a - b; }
mixed inh_mul(mixed a, mixed b) { return a * b; }
int inh_iadd(int a, int b) { return a + b; }
float inh_fadd(float a, float b) { return a + b; }
mixed inh_idx(mixed c, mixed i) { return c[i]; }
mixed inh_rng(mixed c, int i, int j) { return c[i..j]; }
mixed over(mixed a, mixed b) { return ({ "base", a, b }); }
mixed inh_setg(int v) { bg = v; return bg; }
mixed inh_getg() { return bg; }
mixed inh_inc_g() { return ++bg; }
